CONSTANTS
  T = {1, 2, 3}
  Intervals = {1, 2}
  MaxNow = 8
  MaxAdv = 2
  MaxCbOps = 1
  Variant = "intended"
  Depth = 6
  Preload = TRUE
  Focus = TRUE
  Kinds = {"pool"}
SPECIFICATION GSpec
CONSTRAINT Emit
CHECK_DEADLOCK FALSE
