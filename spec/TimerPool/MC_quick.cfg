CONSTANTS
  Intervals = {1}
  AtDelays = {0}
  MaxT = 3
  MaxNow = 2
  MaxAdv = 2
  MaxCbOps = 1
  NullTok = 0
  Variant = "intended"
SPECIFICATION Spec
CONSTRAINT RunOnly
INVARIANTS TypeOK TokenUnique NoOrphan NoLeak NoDeleteRunning OneShotOnce OneShotReleased NoFireAfterCancel NeverEarly NoSkip Armed DeadlineOrder CancelTruth QuietAfterEnd
CHECK_DEADLOCK FALSE
