CONSTANTS
  Intervals = {1, 2}
  AtDelays <- AtNeg
  MaxT = 2
  MaxNow = 3
  MaxAdv = 2
  MaxCbOps = 1
  NullTok = 0
  Variant = "at_wraps"
SPECIFICATION Spec
INVARIANTS TypeOK NoSkip
CHECK_DEADLOCK FALSE
