--------------------------- MODULE Gen_TimerPool ---------------------------
(* Behaviour generator for E09.  Every behaviour of the bounded model with `Depth` recorded steps (BFS) or random deep ones    *)
(* (-simulate) is printed as a JSON history.  The driver addresses timers through slots (a table slot -> last token handed   *)
(* out, kept when stale); the generator carries that table (stok, sof) and creates only on a slot that holds no timer known   *)
(* to the pool and is not the slot of the running callback -- the same rule the driver applies.  With Preload = p the          *)
(* behaviours start, loop running, with p armed timers on slots 1..p (every assignment of period/delay and kind up to slot   *)
(* permutation).  checks/e09.py turns a history into a driver script: operations issued outside callbacks in order, and for   *)
(* the n-th invocation of slot i the operations its callback issues.  The C++ driver executes the script on a real loop and   *)
(* the recorded trace is validated against Trace_TimerPool: the execution only has to be SOME behaviour of the specification. *)
EXTENDS TimerPool, Json, TLC
CONSTANTS Depth, Slots, Preload, TopOps, CbOps
VARIABLES hist, steps, stok, sof
gvars == <<vars, hist, steps, stok, sof>>
CurSlot == IF cur = 0 THEN 0 ELSE sof[cur]
Op(o, s, dd) == [o |-> o, i |-> s, d |-> dd, cb |-> CurSlot]
H(r) == hist' = Append(hist, r) /\ steps' = steps + 1
Quiet == UNCHANGED <<hist, steps>>
Keep == UNCHANGED <<stok, sof>>
Allowed(o) == IF phase = "cb" THEN o \in CbOps ELSE o \in TopOps
SlotFree(s) == (\A t \in TS : sof[t] = s => ~tm[t].cab) /\ CurSlot # s
Made(s) == stok' = [stok EXCEPT ![s] = Fresh] /\ sof' = Append(sof, s)
AdvOK == IF phase = "cb" \/ hist = <<>> THEN TRUE ELSE hist[Len(hist)].o # "adv"
Rank(dd, m) == 2 * dd + (IF m = "every" THEN 1 ELSE 0)
P == 1..Preload
AtPast == {-1, 0, 1}      \* doAt delays including a time point in the past (cfg files cannot write negative numbers)

GInit ==
  /\ steps = 0 /\ now = 0 /\ passNow = 0 /\ phase = "idle" /\ cur = 0 /\ nops = 0 /\ pool = "alive"
  /\ ret = FALSE /\ lastfire = NoFire /\ prevDl = 0 /\ cancelBad = FALSE
  /\ IF Preload = 0 THEN lp = "pre" /\ tm = <<>> /\ lastId = 0 /\ hist = <<>> /\ stok = [s \in Slots |-> NullTok] /\ sof = <<>>
     ELSE \E dd \in [P -> Intervals], mm \in [P -> {"every", "after"}] :
            /\ \A i, j \in P : i < j => Rank(dd[i], mm[i]) <= Rank(dd[j], mm[j])      \* slots are interchangeable
            /\ lp = "run" /\ lastId = Preload
            /\ tm = [i \in P |-> [mode |-> mm[i], d |-> dd[i], dl |-> dd[i], at |-> 0, k |-> 0, tok |-> i, cab |-> TRUE, en |-> TRUE,
                                  obj |-> "live", can |-> FALSE]]
            /\ stok = [s \in Slots |-> IF s \in P THEN s ELSE NullTok] /\ sof = [i \in P |-> i]
            /\ hist = <<[o |-> "start", i |-> 0, d |-> 0, cb |-> 0]>> \o [i \in P |-> [o |-> mm[i], i |-> i, d |-> dd[i], cb |-> 0]]
GNext ==
  \/ \E s \in Slots, dd \in Intervals : Allowed("create") /\ Room /\ SlotFree(s) /\ DoEvery(dd, Fresh) /\ Made(s) /\ H(Op("every", s, dd))
  \/ \E s \in Slots, dd \in Intervals : Allowed("create") /\ Room /\ SlotFree(s) /\ DoAfter(dd, Fresh) /\ Made(s) /\ H(Op("after", s, dd))
  \/ \E s \in Slots, e \in AtDelays : Allowed("create") /\ Room /\ SlotFree(s) /\ DoAt(e, Fresh) /\ Made(s) /\ H(Op("at", s, e))
  \/ Allowed("null") /\ DoNull /\ Keep /\ H(Op("null", 0, 0))
  \/ \E s \in Slots : Allowed("cancel") /\ Cancel(stok[s]) /\ Keep /\ H(Op("cancel", s, 0))
  \/ Allowed("cleanup") /\ Cleanup /\ Keep /\ H(Op("cleanup", 0, 0))
  \/ Allowed("destroy") /\ Destroy /\ Keep /\ H(Op("destroy", 0, 0))
  \/ \E n \in 1..MaxAdv : AdvOK /\ Advance(n) /\ Keep /\ H(Op("adv", 0, n))
  \/ LoopStart /\ Keep /\ H(Op("start", 0, 0))
  \/ Allowed("stop") /\ LoopStop /\ Keep /\ H(Op("stop", 0, 0))
  \/ PassBegin /\ Keep /\ H(Op("pass", 0, 0))
  \/ \E t \in TS, L \in {passNow, now} : FireOne(t, L) /\ Keep /\ hist' = Append(hist, [o |-> "fire", i |-> sof[t], d |-> 0, cb |-> 0]) /\ steps' = steps + 1
  \/ CbEnd /\ Keep /\ Quiet
  \/ PassEnd /\ Keep /\ Quiet
GSpec == GInit /\ [][GNext]_gvars
\* printed when the history reaches Depth recorded steps; longer histories are cut
Emit == IF steps = Depth THEN PrintT("BEH " \o ToJson([hist |-> hist])) ELSE steps < Depth
=============================================================================
