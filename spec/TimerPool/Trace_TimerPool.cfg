CONSTANTS
  Intervals = {1}
  AtDelays = {0}
  MaxT = 0
  MaxNow = 1000000000
  MaxAdv = 0
  MaxCbOps = 1000000
  NullTok = 0
  Variant = "intended"
SPECIFICATION TSpec
CONSTRAINT Progress
POSTCONDITION Accepted
INVARIANTS TokenUnique NoOrphan NoLeak NoDeleteRunning OneShotOnce OneShotReleased NoFireAfterCancel NeverEarly NoSkip Armed DeadlineOrder CancelTruth QuietAfterEnd
CHECK_DEADLOCK FALSE
