CONSTANTS
  Intervals = {1, 2}
  AtDelays = {0, 2}
  MaxT = 4
  MaxNow = 8
  MaxAdv = 2
  MaxCbOps = 1
  NullTok = 0
  Variant = "intended"
  Depth = 6
  Slots = {1, 2, 3}
  Preload = 3
  TopOps = {}
  CbOps = {"create", "cancel", "cleanup"}
SPECIFICATION GSpec
CONSTRAINT Emit
CHECK_DEADLOCK FALSE
