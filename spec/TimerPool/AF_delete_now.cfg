CONSTANTS
  Intervals = {1, 2}
  AtDelays = {0}
  MaxT = 2
  MaxNow = 3
  MaxAdv = 2
  MaxCbOps = 1
  NullTok = 0
  Variant = "delete_now"
SPECIFICATION Spec
INVARIANTS TypeOK NoDeleteRunning
CHECK_DEADLOCK FALSE
