CONSTANTS
  Intervals = {1, 2}
  AtDelays = {0}
  MaxT = 2
  MaxNow = 3
  MaxAdv = 2
  MaxCbOps = 1
  NullTok = 0
  Variant = "clear_resets_id"
SPECIFICATION Spec
INVARIANTS TypeOK TokenUnique
CHECK_DEADLOCK FALSE
