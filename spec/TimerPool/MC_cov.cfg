CONSTANTS
  Intervals = {1, 2}
  AtDelays <- AtNeg
  MaxT = 2
  MaxNow = 3
  MaxAdv = 2
  MaxCbOps = 1
  NullTok = 0
  Variant = "intended"
SPECIFICATION Spec
INVARIANTS TypeOK TokenUnique NoOrphan NoLeak NoDeleteRunning OneShotOnce OneShotReleased NoFireAfterCancel NeverEarly NoSkip Armed DeadlineOrder CancelTruth QuietAfterEnd
CHECK_DEADLOCK FALSE
