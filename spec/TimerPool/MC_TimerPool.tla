---------------------------- MODULE MC_TimerPool ----------------------------
(* Bounded models of TimerPool for exhaustive checking; constants come from the cfg files. *)
EXTENDS TimerPool, TLC
\* state constraint of the three-timer configurations: everything happens while the loop runs (the life cycle -- operations before
\* the loop starts, after it has stopped, destruction -- is explored by the two-timer configurations)
AtPast == {-1, 0, 1}      \* doAt delays including a time point in the past (cfg files cannot write negative numbers)
AtNeg == {-1, 1}
RunOnly == (lp = "pre" => tm = <<>> /\ now = 0) /\ lp # "post" /\ pool = "alive"
=============================================================================
