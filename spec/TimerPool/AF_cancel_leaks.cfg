CONSTANTS
  Intervals = {1, 2}
  AtDelays = {0}
  MaxT = 2
  MaxNow = 3
  MaxAdv = 2
  MaxCbOps = 1
  NullTok = 0
  Variant = "cancel_leaks"
SPECIFICATION Spec
INVARIANTS TypeOK NoLeak
CHECK_DEADLOCK FALSE
