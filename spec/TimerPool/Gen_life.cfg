CONSTANTS
  Intervals = {1}
  AtDelays <- AtPast
  MaxT = 5
  MaxNow = 6
  MaxAdv = 1
  MaxCbOps = 1
  NullTok = 0
  Variant = "intended"
  Depth = 14
  Slots = {1, 2}
  Preload = 0
  TopOps = {"create", "cancel", "cleanup", "destroy", "stop", "null"}
  CbOps = {"cancel", "cleanup"}
SPECIFICATION GSpec
CONSTRAINT Emit
CHECK_DEADLOCK FALSE
