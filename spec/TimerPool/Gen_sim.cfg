CONSTANTS
  Intervals = {1, 2, 3}
  AtDelays <- AtPast
  MaxT = 12
  MaxNow = 1000
  MaxAdv = 4
  MaxCbOps = 2
  NullTok = 0
  Variant = "intended"
  Depth = 36
  Slots = {1, 2, 3, 4}
  Preload = 0
  TopOps = {"create", "cancel", "cleanup", "destroy", "stop", "null"}
  CbOps = {"create", "cancel", "cleanup", "null"}
SPECIFICATION GSpec
CONSTRAINT Emit
CHECK_DEADLOCK FALSE
