------------------------------ MODULE TimerPool ------------------------------
(* E09 - tbox::eventx::TimerPool (modules/eventx/timer_pool.{h,cpp}).                                      *)
(*                                                                                                         *)
(* Implementation-shaped model of the pool on top of the loop's timers:                                    *)
(*   * every doEvery/doAfter/doAt creates a TimerEvent object (tm[t], t = creation number), stores it in   *)
(*     the cabinet under a fresh token, arms it (en = it is in the loop's min-heap, dl = absolute deadline)*)
(*   * cancel(token) = cabinet.free(token); found: disable, delete the object -- deferred through the loop *)
(*     while the loop is running (obj = "pend"), at once otherwise (obj = "dead") -- and answer true       *)
(*   * a doAfter timer runs a wrapper: user callback, then cabinet.free(own token) + deferred delete       *)
(*   * cleanup() = the cancel treatment for every stored timer, then cabinet.clear() (ids are NOT reset)   *)
(*   * ~TimerPool = cleanup                                                                                *)
(*   * one loop pass = PassBegin, { FireOne ; operations of the callback ; CbEnd }*, PassEnd (the deferred *)
(*     deletions run at the end of the iteration); time is virtual (`now`, ms)                             *)
(* Operations are issued before the loop runs (lp = "pre"), between passes / inside timer callbacks while  *)
(* it runs ("run"), and after it has stopped ("post").                                                     *)
(* Tokens are opaque values chosen by the caller of the action (`tk`): the bounded models draw them from   *)
(* the cabinet's id counter (lastId), the trace specification takes the token the real pool returned.      *)
(* The properties are separate formulas over ghost fields (at, k, can, lastfire, cancelBad) that no       *)
(* enabling condition reads.  `Variant` switches one mechanism step to a plausible wrong one; only         *)
(* "intended" satisfies every invariant.                                                                   *)
EXTENDS Integers, Sequences, FiniteSets

CONSTANTS Intervals,  \* periods / delays doEvery / doAfter may choose (all >= 1)        (model checking only)
          AtDelays,   \* effective delays of doAt (may be <= 0: a time point in the past) (model checking only)
          MaxT,       \* timers created per behaviour                                    (model checking only)
          MaxNow, MaxAdv, MaxCbOps,                                                  \* (model checking only)
          NullTok,    \* the null token (TimerToken())
          Variant     \* "intended" | "clear_resets_id" | "lazy_cancel" | "delete_now" | "oneshot_keeps_token"
                      \* | "cleanup_no_disable" | "cancel_leaks" | "rearm_now" | "at_wraps" (the code as found: unsigned deadline)

NoFire == [t |-> 0, time |-> 0, at |-> 0, d |-> 0, k |-> 0, mode |-> "after", wasEn |-> TRUE, wasCab |-> TRUE, wasCan |-> FALSE,
           obj |-> "live", gdl |-> 0, prev |-> 0]

VARIABLES now, passNow,
          lp,        \* "pre" | "run" | "post" : the loop has not run yet / is running (isRunning()) / has stopped
          phase,     \* "idle" | "pass" (inside handleExpiredTimers) | "cb" (inside a timer callback)
          cur,       \* timer whose callback is running (0 = none)
          nops,      \* operations issued by the running callback
          pool,      \* "alive" | "gone"
          tm,        \* sequence of every timer ever created: [mode, d, dl, at, k, tok, cab, en, obj, can]
          lastId,    \* the cabinet's id counter (the bounded models allocate tokens from it)
          ret,       \* answer of the last cancel
          lastfire, prevDl, cancelBad      \* ghosts (cancelBad latches a wrong answer / effect of cancel)
vars == <<now, passNow, lp, phase, cur, nops, pool, tm, lastId, ret, lastfire, prevDl, cancelBad>>

TS == 1..Len(tm)
Init == /\ now = 0 /\ passNow = 0 /\ lp = "pre" /\ phase = "idle" /\ cur = 0 /\ nops = 0 /\ pool = "alive" /\ tm = <<>>
        /\ lastId = 0 /\ ret = FALSE /\ lastfire = NoFire /\ prevDl = 0 /\ cancelBad = FALSE

(* ----------------------------------------- operations ------------------------------------------------ *)
InCtx == pool = "alive" /\ (phase = "idle" \/ (phase = "cb" /\ nops < MaxCbOps))
Frame == /\ nops' = IF phase = "cb" THEN nops + 1 ELSE nops
         /\ UNCHANGED <<passNow, lp, phase, cur, pool, lastfire, prevDl>>

\* doEvery / doAfter / doAt: new TimerEvent, cabinet.alloc, initialize, enable.  `delay` is the period (every) or the delay.
Create(mode, delay, tk) ==
  /\ InCtx
  /\ tm' = Append(tm, [mode |-> mode, d |-> delay, dl |-> (IF Variant = "at_wraps" /\ now + delay < 0 THEN 1000000 ELSE now + delay),
                       at |-> now, k |-> 0, tok |-> tk, cab |-> TRUE, en |-> TRUE,
                       obj |-> "live", can |-> FALSE])
  /\ lastId' = tk /\ UNCHANGED <<now, ret, cancelBad>> /\ Frame
DoEvery(dd, tk) == dd >= 1 /\ Create("every", dd, tk)
DoAfter(dd, tk) == dd >= 1 /\ Create("after", dd, tk)
DoAt(e, tk) == Create("after", e, tk)
\* a null callback: warning, null token, nothing created
DoNull == /\ InCtx /\ UNCHANGED <<now, tm, lastId, ret, cancelBad>> /\ Frame

\* the bookkeeping of a deleted timer is of no interest any more (keeps equivalent states equal)
Forget(r) == IF r.obj = "dead" /\ ~r.en THEN [r EXCEPT !.d = 0, !.dl = 0, !.at = 0] ELSE r
\* what cancel() / cleanup() do with a stored timer
DropIt(r) == [r EXCEPT !.cab = FALSE,
                     !.en = IF Variant = "lazy_cancel" THEN @ ELSE FALSE,
                     !.obj = IF Variant = "cancel_leaks" /\ lp # "run" THEN @
                             ELSE IF lp = "run" /\ Variant # "delete_now" THEN "pend" ELSE "dead",
                     !.can = TRUE]
Drop(r) == Forget(DropIt(r))
Hits(tk) == {t \in TS : tm[t].cab /\ tm[t].tok = tk}

\* cancel() answers true exactly for a token the pool still holds: a periodic timer, or a one-shot that has not fired (or is cancelling
\* itself from its own callback -- there the header does not say; both answers are accepted, the effect is the same); whatever the
\* answer, nothing with that token is armed when cancel() returns (true => it was disarmed and never fires again, see
\* NoFireAfterCancel; false => there was nothing to prevent)
Cancel(tk) ==
  /\ InCtx
  /\ IF Hits(tk) = {} THEN /\ ret' = FALSE /\ UNCHANGED tm
                           /\ cancelBad' = (cancelBad \/ \E t \in TS : tm[t].tok = tk /\ tm[t].en)
     ELSE LET t == CHOOSE x \in Hits(tk) : TRUE IN
          /\ ret' \in (IF t = cur /\ tm[t].mode = "after" THEN BOOLEAN ELSE {TRUE})     \* own token from the own doAfter callback: open
          /\ tm' = [tm EXCEPT ![t] = Drop(@)]
          /\ cancelBad' = (cancelBad \/ Drop(tm[t]).en \/ ~(tm[t].mode = "every" \/ tm[t].k = 0 \/ t = cur))
  /\ UNCHANGED <<now, lastId>> /\ Frame

CleanAll == [t \in TS |-> IF tm[t].cab THEN (IF Variant = "cleanup_no_disable" THEN [Drop(tm[t]) EXCEPT !.en = tm[t].en] ELSE Drop(tm[t]))
                          ELSE tm[t]]
Cleanup == /\ InCtx /\ tm' = CleanAll
           /\ lastId' = IF Variant = "clear_resets_id" THEN 0 ELSE lastId
           /\ UNCHANGED <<now, ret, cancelBad>> /\ Frame

\* ~TimerPool (not from inside a callback of one of its own timers)
Destroy == /\ pool = "alive" /\ phase = "idle" /\ pool' = "gone" /\ tm' = CleanAll
           /\ UNCHANGED <<now, passNow, lp, phase, cur, nops, lastId, ret, lastfire, prevDl, cancelBad>>

Advance(n) == /\ (phase = "idle" \/ (phase = "cb" /\ nops < MaxCbOps)) /\ n >= 0 /\ now + n <= MaxNow /\ now' = now + n
              /\ nops' = IF phase = "cb" THEN nops + 1 ELSE nops
              /\ UNCHANGED <<passNow, lp, phase, cur, pool, tm, lastId, ret, lastfire, prevDl, cancelBad>>

(* ----------------------------------------- the loop --------------------------------------------------- *)
Reap == [t \in TS |-> IF tm[t].obj = "pend" THEN Forget([tm[t] EXCEPT !.obj = "dead"]) ELSE tm[t]]
LoopStart == /\ lp = "pre" /\ phase = "idle" /\ lp' = "run"
             /\ UNCHANGED <<now, passNow, phase, cur, nops, pool, tm, lastId, ret, lastfire, prevDl, cancelBad>>
\* exitLoop(): the loop drains its deferred tasks before runLoop() returns
LoopStop == /\ lp = "run" /\ phase = "idle" /\ lp' = "post" /\ tm' = Reap
            /\ UNCHANGED <<now, passNow, phase, cur, nops, pool, lastId, ret, lastfire, prevDl, cancelBad>>

PassBegin == /\ lp = "run" /\ phase = "idle" /\ phase' = "pass" /\ passNow' = now /\ prevDl' = -1000000
             /\ UNCHANGED <<now, lp, cur, nops, pool, tm, lastId, ret, lastfire, cancelBad>>

\* pop a due timer of minimum deadline; one-shot: out of the heap before its callback; periodic: deadline += period
FireOne(t, L) ==
  /\ phase = "pass" /\ L \in {passNow, now} /\ t \in TS /\ tm[t].en /\ tm[t].dl <= L
  /\ \A u \in TS : tm[u].en => tm[t].dl <= tm[u].dl
  /\ LET r == tm[t]
         one == r.mode = "after"
         g == IF one THEN r.at + r.d ELSE r.at + (r.k + 1) * r.d
     IN /\ tm' = [tm EXCEPT ![t] = IF one THEN [r EXCEPT !.en = FALSE, !.k = @ + 1]
                                   ELSE [r EXCEPT !.dl = IF Variant = "rearm_now" THEN L + r.d ELSE @ + r.d, !.k = @ + 1]]
        /\ lastfire' = [t |-> t, time |-> L, at |-> r.at, d |-> r.d, k |-> r.k + 1, mode |-> r.mode, wasEn |-> r.en, wasCab |-> r.cab,
                        wasCan |-> r.can, obj |-> r.obj, gdl |-> g, prev |-> prevDl]
        /\ prevDl' = g
  /\ passNow' = L /\ phase' = "cb" /\ cur' = t /\ nops' = 0 /\ UNCHANGED <<now, lp, pool, lastId, ret, cancelBad>>

\* the callback returns; the doAfter wrapper then releases its own token and defers the deletion of its timer
CbEnd == /\ phase = "cb" /\ phase' = "pass" /\ cur' = 0 /\ nops' = 0 /\ lastfire' = NoFire
         /\ tm' = IF tm[cur].mode = "after" /\ tm[cur].cab /\ Variant # "oneshot_keeps_token"
                  THEN [tm EXCEPT ![cur] = [@ EXCEPT !.cab = FALSE, !.obj = "pend"]] ELSE tm
         /\ UNCHANGED <<now, passNow, lp, pool, lastId, ret, prevDl, cancelBad>>

\* nothing (more) is due; the deferred deletions run at the end of the iteration
PassEnd == /\ phase = "pass" /\ \A t \in TS : tm[t].en => tm[t].dl > passNow
           /\ phase' = "idle" /\ tm' = Reap /\ prevDl' = 0
           /\ UNCHANGED <<now, passNow, lp, cur, nops, pool, lastId, ret, lastfire, cancelBad>>

(* bounded next-state relation: tokens come from the cabinet's id counter; cancel is offered every token ever issued, the null token and *)
(* the id the cabinet will hand out next                                                                                                *)
Fresh == lastId + 1
Known == {tm[t].tok : t \in TS} \cup {NullTok, Fresh}
Room == Len(tm) < MaxT
NDoEvery == \E dd \in Intervals : Room /\ DoEvery(dd, Fresh)
NDoAfter == \E dd \in Intervals : Room /\ DoAfter(dd, Fresh)
NDoAt == \E e \in AtDelays : Room /\ DoAt(e, Fresh)
NCancel == \E tk \in Known : Cancel(tk)
NAdvance == \E n \in 1..MaxAdv : Advance(n)
NFireOne == \E t \in TS, L \in {passNow, now} : FireOne(t, L)
Next == \/ NDoEvery \/ NDoAfter \/ NDoAt \/ DoNull \/ NCancel \/ Cleanup \/ Destroy \/ NAdvance
        \/ LoopStart \/ LoopStop \/ PassBegin \/ NFireOne \/ CbEnd \/ PassEnd
Spec == Init /\ [][Next]_vars

(* ------------------------------------------- properties ------------------------------------------------ *)
TypeOK == /\ now >= 0 /\ passNow \in 0..now /\ lp \in {"pre", "run", "post"} /\ phase \in {"idle", "pass", "cb"}
          /\ cur \in TS \cup {0} /\ (phase = "cb") = (cur # 0) /\ (phase # "idle" => lp = "run") /\ pool \in {"alive", "gone"}
          /\ \A t \in TS : /\ tm[t].mode \in {"every", "after"} /\ tm[t].cab \in BOOLEAN /\ tm[t].en \in BOOLEAN /\ tm[t].can \in BOOLEAN
                           /\ tm[t].obj \in {"live", "pend", "dead"} /\ tm[t].k >= 0 /\ (tm[t].mode = "every" /\ tm[t].obj # "dead" => tm[t].d >= 1)

\* a token is handed out once: no two timers ever share a token, and none is the null token -- so a stale token can never cancel a
\* younger timer
TokenUnique == \A t, u \in TS : /\ tm[t].tok # NullTok
                                /\ (t # u => tm[t].tok # tm[u].tok)
\* what is armed in the loop is known to the pool, and its TimerEvent object exists: nothing the user cannot cancel keeps firing
NoOrphan == \A t \in TS : tm[t].en => tm[t].cab /\ tm[t].obj = "live"
\* a timer the pool no longer knows is deleted or on its way to be deleted; after the loop has stopped / outside it nothing is pending
NoLeak == \A t \in TS : /\ (~tm[t].cab => tm[t].obj # "live")
                        /\ (lp # "run" => tm[t].obj # "pend")
\* the TimerEvent whose callback is running is never deleted under its feet (TimerEventImpl::~ asserts this)
NoDeleteRunning == phase = "cb" => tm[cur].obj # "dead"
\* a doAfter/doAt timer fires at most once, and its token is released when its callback has returned
OneShotOnce == \A t \in TS : tm[t].mode = "after" => tm[t].k <= 1
OneShotReleased == \A t \in TS : tm[t].mode = "after" /\ tm[t].k = 1 /\ t # cur => ~tm[t].cab
\* only a timer that was armed, known to the pool and not cancelled / cleaned up fires; its object exists
NoFireAfterCancel == lastfire.t # 0 => lastfire.wasEn /\ lastfire.wasCab /\ ~lastfire.wasCan /\ lastfire.obj = "live"
\* never early: the k-th firing of doEvery(d) issued at `at` is not before at + k*d; doAfter(d): not before at + d
NeverEarly == lastfire.t # 0 => lastfire.time >= lastfire.at + (IF lastfire.mode = "every" THEN lastfire.k ELSE 1) * lastfire.d
\* between passes every armed timer has had all the firings that were due at the pass time (periodic timers keep firing, no period
\* is skipped, a one-shot is not forgotten).  A doAt timer with a time point in the past (delay <= 0) must have fired in the first pass
\* whose clock is later than the call.
NoSkip == phase = "idle" /\ lp = "run" => \A t \in TS : tm[t].en => IF tm[t].d >= 1 THEN passNow < tm[t].at + (tm[t].k + 1) * tm[t].d
                                                                       ELSE passNow <= tm[t].at
Armed == \A t \in TS : tm[t].cab /\ ~tm[t].can /\ (tm[t].mode = "every" \/ tm[t].k = 0) => tm[t].en
\* within one pass the intended deadlines are served in order (a doAt timer created during the pass with a time point in the past is
\* not concerned)
DeadlineOrder == lastfire.t # 0 /\ lastfire.d >= 1 => lastfire.prev <= lastfire.gdl
CancelTruth == ~cancelBad
\* nothing is armed once the pool is gone; when the loop has stopped as well every timer object has been deleted
QuietAfterEnd == pool = "gone" => /\ \A t \in TS : ~tm[t].en /\ ~tm[t].cab
                                  /\ (lp # "run" => \A t \in TS : tm[t].obj = "dead")
=============================================================================
