--------------------------- MODULE Trace_TimerPool ---------------------------
(* Trace validation for E09.  Every line of the ndjson trace recorded from the real TimerPool (driver:      *)
(* harness/e09_timerpool/driver.cpp) must be the corresponding action of TimerPool (Variant = "intended")   *)
(* with the logged arguments: the token the pool returned (an opaque number), the answer of cancel(), the   *)
(* virtual time.  Timers are identified by their creation number c (= index in tm).                         *)
(*   fire    must be FireOne of that timer: armed, known to the pool, not cancelled, due, of minimum deadline*)
(*           (any timer among equal deadlines)                                                              *)
(*   passend must be PassEnd: nothing armed is still due (periodic timers keep firing, one-shots not lost)  *)
(*   at      doAt(): the effective delay is any value between the two bounds the driver measured around the *)
(*           call, or one more (rounding up instead of down is not early); a time point in the past may    *)
(*           count as "now" (delay 0) or keep its place in the past among the timers that are due          *)
(*           call (wall clock read before / after it)                                                       *)
(*   end     the pool is destroyed, the loop has stopped, LeakSanitizer found nothing                       *)
(* All invariants of TimerPool are evaluated on every state of the trace as well.                           *)
EXTENDS TimerPool, Json, IOUtils, TLC
TLog == ndJsonDeserialize(IOEnv.TRACE)
VARIABLE l
ASSUME TLCSet(42, 0)
tvars == <<vars, l>>

Ev == TLog[l]
IsEv(e) == l <= Len(TLog) /\ TLog[l].e = e /\ l' = l + 1
InCb == cur = Ev.cb
Post == now' = Ev.now
NewC == Ev.c = Len(tm) + 1

TInit == Init /\ l = 1
TReset == /\ IsEv("Reset")
          /\ now' = 0 /\ passNow' = 0 /\ lp' = "pre" /\ phase' = "idle" /\ cur' = 0 /\ nops' = 0 /\ pool' = "alive" /\ tm' = <<>>
          /\ lastId' = 0 /\ ret' = FALSE /\ lastfire' = NoFire /\ prevDl' = 0 /\ cancelBad' = FALSE
TNext ==
  \/ TReset
  \/ IsEv("info") /\ UNCHANGED vars
  \/ IsEv("cancelBegin") /\ UNCHANGED vars                   \* logged before the call so that a crash inside it is attributed
  \/ IsEv("every") /\ InCb /\ NewC /\ DoEvery(Ev.d, Ev.tok) /\ Post
  \/ IsEv("after") /\ InCb /\ NewC /\ DoAfter(Ev.d, Ev.tok) /\ Post
  \/ IsEv("at") /\ InCb /\ NewC /\ (\E e \in Ev.lo..(Ev.hi + 1) : DoAt(e, Ev.tok) \/ (e < 0 /\ DoAt(0, Ev.tok))) /\ Post
  \/ IsEv("null") /\ InCb /\ Ev.tok = NullTok /\ DoNull /\ Post
  \/ IsEv("cancel") /\ InCb /\ Cancel(Ev.tok) /\ ret' = Ev.ret /\ Post
  \/ IsEv("cleanup") /\ InCb /\ Cleanup /\ Post
  \/ IsEv("destroy") /\ Destroy /\ Post
  \/ IsEv("adv") /\ InCb /\ Advance(Ev.n) /\ Post
  \/ IsEv("start") /\ LoopStart /\ Post
  \/ IsEv("stop") /\ LoopStop /\ Post
  \/ IsEv("pass") /\ PassBegin /\ Post
  \/ IsEv("fire") /\ (\E L \in {passNow, now} : FireOne(Ev.c, L)) /\ Post
  \/ IsEv("cbend") /\ cur = Ev.c /\ CbEnd /\ Post
  \/ IsEv("passend") /\ PassEnd /\ Post
  \/ IsEv("end") /\ pool = "gone" /\ lp # "run" /\ Ev.leak = FALSE /\ UNCHANGED vars
TSpec == TInit /\ [][TNext]_tvars

Progress == TLCSet(42, IF l > TLCGet(42) THEN l ELSE TLCGet(42))
Accepted == IF TLCGet(42) = Len(TLog) + 1 THEN TRUE ELSE PrintT(<<"MAXPOS", TLCGet(42), Len(TLog)>>) /\ FALSE
=============================================================================
