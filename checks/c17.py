# C17 - Action trees finish once with the documented result; nothing left running.
#   model:   spec/Flow/ActionTree.tla (implementation-shaped: per-node state machine of action.cpp, serial composite cursor +
#            held child result, parallel finished map, the loop's deferred queue of finish/block notifications, timers)
#            -- TLC exhaustive over enumerated programs (trees as data) x all placements of <= 3 control calls x all
#            interleavings of ticks / completions / timeouts / deliveries; four as-found configurations must violate.
#   binding: "program as data": harness/c17_flow/driver.cpp builds the REAL tree of each program (probe leaves, SleepAction,
#            FunctionAction, every composite and mode, action timeouts under the virtual clock), drives the loop pass by pass,
#            applies the control script and records state()/result() of every node + hook/final/root callbacks after every
#            pass; spec/Flow/Trace_ActionTree.tla accepts iff the general model (deliveries in any later pass, FIFO) explains it.
#            Scripts: TLC-enumerated (Gen_ActionTree, BFS over the witness programs and a seeded sample of the model-checked ones) and
#            seeded random deep programs/scripts (incl. calls back to back and calls placed in the middle of a batch).
import json
import os
import random
import vlib
import c17_progs as P

EVENT = ["event/loop.cpp", "event/common_loop.cpp", "event/common_loop_run.cpp", "event/common_loop_timer.cpp",
         "event/common_loop_signal.cpp", "event/timer_event_impl.cpp", "event/signal_event_impl.cpp", "event/misc.cpp",
         "event/stat.cpp", "event/engines/epoll/loop.cpp", "event/engines/epoll/fd_event.cpp",
         "event/engines/select/loop.cpp", "event/engines/select/fd_event.cpp"]
FLOW = ["flow/action.cpp"] + ["flow/actions/%s.cpp" % x for x in
                              ("assemble_action composite_action function_action if_else_action if_then_action loop_action "
                               "loop_if_action parallel_action repeat_action sequence_action sleep_action switch_action "
                               "wrapper_action dummy_action").split()]
UTIL = ["util/variables.cpp", "util/string.cpp", "util/json.cpp"]
SRC = vlib.BASE_SRC + EVENT + FLOW + UTIL

ASFOUND = [("par_drop", "PauseHoldsResults"), ("stop_blk", "NoStaleNotification"), ("held_stale", "NoStaleNotification"),
           ("tmo_child", "NothingLeftRunning"), ("blk_multi", "NoStaleNotification")]


def witnesses():
    """Small programs that exercise each documented corner (and each of the four repaired defects)."""
    L, Nd = P.L, P.Nd
    return [
        Nd("Par", 0, [L("succ", 1), L("succ", 0)]),                       # finish delivered while paused
        Nd("Seq", 0, [L("block", 0)]),                                    # queued block notification vs stop
        Nd("Seq", 0, [L("succ", 0), L("never"), L("never")]),             # held result re-posted, then reset+start
        Nd("Par", 0, [L("never")], to=2),                                 # finishing by timeout with a running child
        Nd("Seq", 1, [L("succ", 1), L("fail", 0), L("succ", 0)], to=2),
        Nd("Par", 2, [L("fail", 0), L("succ", 1), L("never")]),
        Nd("Par", 1, [L("block", 1), L("fail", 1)]),
        Nd("Par", 2, [L("succ", 1), L("fail", 0), L("never")]),           # decisive result recorded while paused, lower index
        Nd("Seq", 0, [Nd("Par", 1, [L("fail", 1), L("never"), L("succ", 0)]), L("succ", 1)]),
        Nd("IfElse", 0, [L("succ", 1), L("fail", 0), L("succ", 0)]),
        Nd("IfElse", 0, [L("fail", 0), L("succ", 0), None]),
        Nd("IfThen", 0, [L("fail", 0), L("succ", 0), L("succ", 1), L("fail", 1)]),
        Nd("Switch", 0, [L("succ", 0, 1), L("fail", 0), L("succ", 1), None]),
        Nd("Switch", 0, [L("succ", 1, 2), None, L("succ", 0), None]),
        Nd("Loop", 1, [Nd("Seq", 0, [L("succ", 0), L("fail", 1)])]),
        Nd("Loop", 0, [L("succ", 1)]),
        Nd("LoopIf", 0, [L("block", 0), L("succ", 0)]),
        Nd("LoopIf", 1, [L("fail", 1), L("succ", 0)]),
        Nd("Repeat", 0, [L("succ", 0)], n=2),
        Nd("Repeat", 1, [L("fail", 1)], n=2),
        Nd("Repeat", 0, [L("succ", 1)], n=0),                             # times = 0 is "for ever" (pinned by the repository's test)
        Nd("Wrap", 1, [Nd("Par", 0, [L("succ", 1), L("block", 0)])]),
        Nd("Comp", 0, [L("never")], to=1),
        Nd("Seq", 0, [Nd("Par", 0, [L("succ", 1), L("succ", 0)]), L("block", 1)]),
        Nd("Seq", 2, [Nd("IfElse", 0, [L("succ", 0), L("fail", 1), None]), L("succ", 0)]),
        Nd("Seq", 0, []),
        Nd("Wrap", 1, [L("succ", 0)]), Nd("Wrap", 1, [L("fail", 1)]),     # the held result is the child's, converted once
        Nd("Seq", 1, [Nd("Wrap", 1, [L("fail", 0)]), L("succ", 0, k="Func")]),
        Nd("Wrap", 2, [L("fail", 0)]), Nd("Wrap", 3, [L("succ", 0)]),
        Nd("Comp", 0, [L("succ", 0)]),                                    # last-child result held while paused
        Nd("IfElse", 0, [L("succ", 0), L("fail", 0), None]),
        Nd("Loop", 2, [L("succ", 1)]),
        Nd("Seq", 0, [L("succ", 1, k="Sleep"), L("succ", 0, k="Func")]),
        Nd("Wrap", 0, [L("succ", 3, k="Sleep")]),                         # remaining sleep time across pause/resume
        Nd("Par", 0, [L("block", 2), Nd("Wrap", 0, [L("block", 1)])]),    # two block notifications of one node in flight
    ]


def regressions():
    """The failing inputs of the five repaired defects (design/C17.md section 4) and close variants: always executed."""
    L, Nd = P.L, P.Nd
    res = []
    for prog, scripts in [
        (Nd("Par", 0, [L("succ", 1), L("succ", 0)]), [["start", "pause", "resume"], ["start", "pause", "-", "resume"], ["start", "~pause", "resume"]]),
        (Nd("Par", 2, [L("fail", 0), L("succ", 0), L("never")]), [["start", "pause", "resume"], ["start+pause", "-", "resume"]]),
        (Nd("Seq", 0, [L("block", 0)]), [["start", "-", "stop"], ["start", "-", "reset"], ["start", "-", "stop+reset+start"]]),
        (Nd("Wrap", 1, [Nd("Par", 0, [L("block", 1)])]), [["start", "-", "-", "stop"], ["start", "-", "-", "-", "stop"]]),
        (Nd("Seq", 0, [L("succ", 0), L("never"), L("never")]),
         [["start", "pause", "-", "resume", "reset+start"], ["start", "pause", "resume", "reset+start"],
          ["start", "pause", "resume", "stop+reset+start"], ["start", "pause", "resume", "reset", "start"]]),
        (Nd("IfThen", 0, [L("succ", 0), L("never"), L("fail", 0), L("never")]), [["start", "pause", "resume", "reset+start"]]),
        (Nd("Loop", 1, [L("succ", 0)]), [["start", "pause", "resume", "reset+start"], ["start", "pause", "-", "resume", "reset+start"]]),
        (Nd("Repeat", 0, [L("succ", 0)], n=2), [["start", "pause", "resume", "reset+start"]]),
        (Nd("Par", 0, [L("block", 2), Nd("Wrap", 0, [L("block", 1)])]),
         [["start", "~resume", "-", "stop"], ["start", "~resume", "-", "reset"], ["start", "~resume", "-", "reset+start"]]),
        (Nd("Par", 0, [L("block", 1), Nd("Repeat", 0, [L("succ", 1, k="Sleep")], n=1)]), [["~pause", "start", "resume", "-", "resume"]]),
        (Nd("Par", 0, [L("never"), L("succ", 1)], to=2), [["start"], ["start", "pause", "resume"]]),
        (Nd("Seq", 0, [L("never")], to=1), [["start"]]),
        (Nd("IfElse", 0, [L("succ", 0), L("never"), None], to=2), [["start"]]),
        (Nd("Loop", 0, [L("block", 1)], to=3), [["start"], ["start", "-", "-", "resume"]]),
        (Nd("Seq", 0, [Nd("Switch", 0, [L("succ", 0, 1), None, L("never"), None], to=1), L("succ", 0)]), [["start"]]),
    ]:
        for sc in scripts:
            res.append({"prog": P.flatten(prog), "script": sc, "passes": len(sc) + 6})
    return res


def parallel_pause_family(full):
    """Systematic family for the pause window of Parallel(AnyFail/AnySucc): 3 children with mixed results in every order, one
    of them never finishing, each driven by the scripts that let finishes arrive before / while the parallel is paused.
    (Which recorded result is decisive must not depend on the order or the index of the children.)  Also nested in a Sequence
    so that the continuation after the parallel is observed."""
    L, Nd = P.L, P.Nd
    alpha = [("succ", 0), ("succ", 1), ("fail", 0), ("fail", 1)] + ([("succ", 2), ("fail", 2)] if full else [])
    scripts = [["start", "pause", "resume"], ["start", "-", "pause", "resume"], ["start", "pause", "-", "resume"],
               ["start+pause", "resume"], ["start", "~pause", "resume"], ["start", "-", "~pause", "-", "resume"]]
    res = []
    for m in (1, 2):
        for pos in range(3):
            for a in alpha:
                for b in alpha:
                    if a[0] == b[0] and not full:
                        continue                      # quick: mixed results only
                    kids = [L(*a), L(*b)]
                    kids.insert(pos, L("never"))
                    par = Nd("Par", m, kids)
                    for i, sc in enumerate(scripts):
                        tree = par if (i % 2 == 0) else Nd("Seq", 0, [P.clone(par), L("succ", 1)])
                        res.append({"prog": P.flatten(tree), "script": sc, "passes": len(sc) + 7})
    return res


def serial_pause_family(full):
    """Systematic family for the pause window of the serial composites: every depth-1 serial composite in every mode over
    leaves {succ,fail} x delay {0,1} (<= 2 leaves; Wrapper in all four modes, Repeat 0/1/2 times, ...), driven by scripts in which
    the child's finish is queued when pause() arrives, incl. several calls in ONE pass: resume+pause (the replayed result
    meets a paused composite again and must be held again), pause+resume, start+pause."""
    alpha = [("succ", 0), ("fail", 0), ("succ", 1), ("fail", 1)]
    trees = [t for t in P.composites(P.leaves(alpha), 2, switch_leaves=[P.L("succ", 0, 1), P.L("succ", 1, 0), P.L("fail", 0, 1)], small=True)
             if t["k"] != "Par" and P.nleaves(t) >= 1]
    scripts = [["start", "pause", "resume"],
               ["start+pause", "resume"],
               ["start", "pause", "resume+pause", "resume"],
               ["start", "pause", "resume+pause", "-", "resume+pause", "resume"],
               ["start", "-", "pause", "resume+pause", "resume"],
               ["start", "pause+resume+pause", "resume"],
               ["start", "~pause", "resume+pause", "resume"],
               ["start", "pause", "resume", "pause", "resume"]]
    if full:
        scripts += [["start", "pause", "resume+pause+resume"], ["start", "-", "~pause", "resume+pause", "-", "resume"],
                    ["start", "pause", "-", "resume+pause", "resume+pause", "resume"], ["start", "pause", "resume+pause", "stop+reset+start"]]
    res = []
    for i, t in enumerate(trees):
        for j, sc in enumerate(scripts):
            if not full and (i + j) % 2:            # quick: every program with half of the scripts, alternating
                continue
            res.append({"prog": P.flatten(t), "script": sc, "passes": len(sc) + 7})
    return res


def write_progs(ctx, name, trees):
    path = ctx.tmp(name)
    with open(path, "w") as f:
        json.dump([P.flatten(t) for t in trees], f)
    return path


LINE_BUDGET = 20000   # trace lines per file.  TLC cannot handle behaviours beyond 65535 states (its state-queue writer fails);
                      # a behaviour here is one state per trace line plus the silent steps, so long runs are cut up.


def batches(jobs):
    cur, n = [], 0
    for j in jobs:
        w = 3 * j["passes"] + 6
        if cur and n + w > LINE_BUDGET:
            yield cur
            cur, n = [], 0
        cur.append(j)
        n += w
    if cur:
        yield cur


def validate(ctx, exe, jobs, tag, what):
    ok_all, n_all, tr = True, 0, None
    parts = list(batches(jobs))
    for b, part in enumerate(parts):
        jp = ctx.tmp("%s_%d.jsonl" % (tag, b))
        with open(jp, "w") as f:
            for j in part:
                f.write(json.dumps(j) + "\n")
        tr = ctx.tmp("%s_%d.ndjson" % (tag, b))
        ok, n = vlib.record_and_validate(ctx, exe, ["run", jp, tr], tr, "Flow", "Trace_ActionTree.tla", "Trace_ActionTree.cfg",
                                         what if len(parts) == 1 else "%s [%d/%d]" % (what, b + 1, len(parts)), timeout=1500)
        ok_all = ok_all and ok
        n_all += n
        if not ok:
            break
    return ok_all, n_all, tr


def jobs_from_behaviours(progs, behs, extra=6):
    jobs = []
    for b in sorted(behs, key=lambda x: (x["p"], x["s"])):     # TLC's workers print in any order
        s = list(b["s"])
        while len(s) > 1 and s[-1] == "-":
            s.pop()
        jobs.append({"prog": progs[b["p"] - 1], "script": s, "passes": len(s) + extra})
    return jobs


def job_from_trace(lines):
    """Rebuild (program, script) from a recorded execution (the replay file written for a rejected trace)."""
    prog, script, cur, pending_mid = None, [], [], None
    for ln in lines:
        ln = ln.strip()
        if not ln.startswith("{"):
            continue
        e = json.loads(ln)
        if e["e"] == "Prog":
            prog = e["prog"]
        elif e["e"] == "Ctl":
            if e.get("mid"):
                # the call was scripted one pass earlier with a leading "~"
                if script and not script[-1].startswith("~") and script[-1] == "-":
                    script[-1] = "~" + e["op"]
                elif script and script[-1].startswith("~"):
                    script[-1] += "+" + e["op"]
                else:
                    raise vlib.Infra("cannot place a mid-batch call of the replay file in a script")
            else:
                cur.append(e["op"])
        elif e["e"] == "Tick":
            script.append("+".join(cur) if cur else "-")
            cur = []
    if prog is None:
        raise vlib.Infra("replay file has no program")
    return {"prog": prog, "script": script, "passes": len(script)}


def cleanup_ttrace():
    """TLC writes <Spec>_TTrace_<ts>.tla/.bin next to the spec whenever a run ends with a violation (the expected as-found
    violations included); they are not part of the specification."""
    d = os.path.join(vlib.SPEC, "Flow")
    for f in os.listdir(d):
        if "_TTrace_" in f:
            try:
                os.remove(os.path.join(d, f))
            except OSError:
                pass


def run(ctx):
    try:
        run_checked(ctx)
    finally:
        cleanup_ttrace()


def run_checked(ctx):
    exe = vlib.build("c17_flow", SRC, ["c17_flow/driver.cpp"], flavour="asan", defines=vlib.BASE_DEFS + ["HAVE_EPOLL=1", "HAVE_SELECT=1"])
    ctx.fault_observers = ["AddressSanitizer+UBSan on the harness build (use of a destroyed action / timer from a stale closure)",
                           "terminate/signal handlers", "TBOX_ASSERT active (no NDEBUG)"]
    if ctx.replay_path:
        lines = open(ctx.replay_path).read().splitlines()
        if not any(x.strip().startswith('{"e":"Prog"') for x in lines):
            raise vlib.Infra("replay file is a model counterexample (TLC output), not an execution: re-run the tier instead")
        validate(ctx, exe, [job_from_trace(lines)], "replay", "replay of a recorded execution")
        return

    quick = ctx.quick()
    rnd = random.Random(ctx.seed)
    wit = witnesses()

    # ---- 1. the design: the intended model satisfies every clause for all enumerated programs -------------------------
    pw = write_progs(ctx, "wit.json", wit)
    # vacuity guard: the postcondition AllActionsTaken of MC_cov.cfg fails (-> infrastructure error) when a kind of step never occurs
    ctx.tlc_mc("Flow", "MC_ActionTree.tla", "MC_cov.cfg", env={"PROGS": pw}, coverage=False, workers=1,
               label="MC witness programs + vacuity guard (every kind of step taken)")
    d1 = P.enum_depth1(P.LEAVES_FULL, 3)                      # every depth-1 tree, <= 3 leaves, 7 leaf variants
    d1b = P.enum_depth1(P.LEAVES_SMALL, 4)                    # depth-1 trees with 4 leaves over 4 leaf variants
    d1b = [t for t in d1b if P.nleaves(t) == 4]
    d2 = P.sample_depth2(rnd, 170 if quick else 3000)
    if quick:
        s1 = rnd.sample(d1, 190) + rnd.sample(d1b, 30)
        tmo = P.with_timeouts(rnd.sample(d1, 50) + rnd.sample(d2, 30), rnd)
        mc_sets = [("d1", s1 + tmo), ("d2", d2)]
    else:
        tmo = P.with_timeouts(rnd.sample(d1, 500) + rnd.sample(d2, 400), rnd)
        mc_sets = [("d1", d1), ("d1b", d1b), ("tmo", tmo), ("d2", d2)]
        ctx.exhaustive = True
    nprog = 0
    if os.environ.get("C17_SKIP_MC"):          # development only (mutant loops): the model runs do not depend on the sources
        mc_sets = []
    for name, trees in mc_sets:
        pp = write_progs(ctx, "mc_%s.json" % name, trees)
        nprog += len(trees)
        ctx.tlc_mc("Flow", "MC_ActionTree.tla", "MC_quick.cfg", env={"PROGS": pp}, coverage=False, timeout=3000,
                   label="MC intended (%s: %d programs, <=3 control calls)" % (name, len(trees)))
    ctx.notes.append("model checking: %d programs (depth-1 trees with <= 3 leaves over 7 leaf variants: %s; depth-2: seeded sample); "
                     "all placements of <= 3 control calls, all interleavings" % (nprog, "all %d" % len(d1) if not quick else "seeded sample"))
    # non-vacuity: each repaired defect, switched back on in the model, violates its invariant
    for bug, inv in ASFOUND:
        ctx.tlc_mc("Flow", "MC_ActionTree.tla", "MC_asfound_%s.cfg" % bug, env={"PROGS": pw}, expect=inv, coverage=False,
                   label="MC as-found %s" % bug)

    # ---- 2. spec -> code: TLC-enumerated scripts executed on the real trees -------------------------------------------
    progs_w = [P.flatten(t) for t in wit]
    behs = ctx.tlc_gen("Flow", "Gen_ActionTree.tla", "Gen_ActionTree.cfg" if quick else "Gen_deep.cfg", env={"PROGS": pw})
    jobs = regressions() + parallel_pause_family(not quick) + serial_pause_family(not quick) + jobs_from_behaviours(progs_w, behs)
    ctx.sample({"kind": "TLC-enumerated control script executed on the real tree", "program": jobs[len(jobs) // 2]["prog"],
                "script": jobs[len(jobs) // 2]["script"]})
    ok, n, tr = validate(ctx, exe, jobs, "gen_bfs", "regression scenarios + pause-window families + all scripts (<=3 effective calls, 4 passes) of the witness programs")
    if ok:
        ctx.traces_ok -= n
        ctx.replays_ok += n
    # the same enumeration for a seeded sample of the model-checked programs (BFS, so the run is deterministic for a seed)
    k = 7 if quick else 100
    smp_trees = rnd.sample(d1, k) + rnd.sample(d2, k) + rnd.sample(tmo, k // 2)
    ps = write_progs(ctx, "smp.json", smp_trees)
    behs = ctx.tlc_gen("Flow", "Gen_ActionTree.tla", "Gen_ActionTree.cfg", env={"PROGS": ps})
    progs_s = [P.flatten(t) for t in smp_trees]
    ok, n, tr = validate(ctx, exe, jobs_from_behaviours(progs_s, behs), "gen_smp",
                         "all scripts (<=3 effective calls, 4 passes) of %d sampled programs" % len(smp_trees))
    if ok:
        ctx.traces_ok -= n
        ctx.replays_ok += n

    # ---- 3. code -> spec: seeded random deep programs and scripts -------------------------------------------------------
    jobs = []
    for i in range(1000 if quick else 15000):
        dp = rnd.choice((1, 2, 3, 3))
        t = P.random_tree(rnd, dp)
        while P.nleaves(t) > 6:
            t = P.random_tree(rnd, dp)
        passes = rnd.choice((5, 6, 8))
        jobs.append({"prog": P.flatten(t), "script": P.random_script(rnd, passes), "passes": passes + 5})
    ok, n, tr = validate(ctx, exe, jobs, "random", "seeded random programs (depth <= 3, <= 6 leaves, timeouts, Sleep/Function leaves)")
    first = vlib.read_lines(ctx.tmp("random_0.ndjson"), 1, 6)
    ctx.sample({"kind": "recorded trace (first events)", "events": [json.loads(x) for x in first]})

    ctx.assumptions = [
        "documented result = header pseudo-code AND the repository's pinned tests (tests win): Sequence(AllFinish) and an exhausted "
        "AnySucc/AnyFail sequence finish with the last child's result, Parallel always finishes with success, IfElse with a missing "
        "branch finishes with success, LoopIf finishes with its configured result, Repeat(times=0) repeats for ever (test "
        "FunctionActionForeverNoBreak), IfThen without a matching branch / Switch without a matching case fail",
        "the pass in which a deferred notification is delivered is not part of the property: the trace spec lets every queued "
        "notification be delivered in any later pass (FIFO, before it has waited 3 ticks); a timer that is due may see one more tick",
        "compared per pass: root state()/result() exactly; descendants only as running / paused / at rest; probe-leaf starts as a "
        "sequence, all other hook/final/root callbacks as a multiset; probe-leaf reset hooks are not compared (when a child at rest is reset is open)",
        "where the headers are silent the model mirrors the code: an action timeout restarts from its full interval on resume, keeps "
        "running while the action is blocked; reset() of an under-way tree runs no final hook; a held result whose re-posted replay "
        "meets a second pause is held again, except for then/else/case/composite children whose replay finishes the parent",
        "the switch child of a Switch is a leaf (the case is selected by the reason message of its result)",
    ]
    ctx.uncovered = [
        "ActionExecutor (a client of pause/resume/stop) and EventAction are not driven",
        "control calls are applied to the root only (descendants receive them through their parents)",
        "liveness (EventuallyFinishes) is checked only as bounded progress: a queued notification must be delivered within 3 ticks",
    ]
