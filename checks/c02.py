# C02 - Timers never fire early, never skip, never fire after disable.
#   model:   spec/Timers/Timers.tla (implementation-shaped: virtual clock, heap abstracted to "a minimum-deadline enabled
#            timer", pass = PassBegin / FireOne+callback operations / PassEnd; ghost fields carry the property) -- TLC exhaustive
#            on small scopes, plus one configuration per wrong mechanism variant that MUST violate "its" invariant.
#   binding: spec -> code: histories of the bounded model (exhaustive focus family + random deep ones) become scripts;
#            code -> spec: seeded random scripts (up to 20 timers, late wake-ups, shared deadlines, TimerPool).
#            All scripts run on a real Loop (epoll and select) under a virtual clock, driven pass by pass from inside the
#            loop; every recorded trace is validated by TLC against spec/Timers/Trace_Timers.tla.
import concurrent.futures as cf
import copy
import json
import os
import random
import vlib

EVENT_SRC = ["event/loop.cpp", "event/common_loop.cpp", "event/common_loop_timer.cpp", "event/common_loop_signal.cpp",
             "event/common_loop_run.cpp", "event/timer_event_impl.cpp", "event/signal_event_impl.cpp", "event/misc.cpp",
             "event/stat.cpp", "event/engines/select/loop.cpp", "event/engines/select/fd_event.cpp",
             "event/engines/epoll/loop.cpp", "event/engines/epoll/fd_event.cpp", "eventx/timer_pool.cpp"]
SRC = vlib.BASE_SRC + EVENT_SRC
DEFS = vlib.BASE_DEFS + ["HAVE_EPOLL=1", "HAVE_SELECT=1"]
ACTIONS = ["NCreate|Create", "NInitialize|Initialize", "NEnable|Enable", "NDisable|Disable", "NDestroy|Destroy", "NEvery|Every",
           "NAfter|After", "NCancel|Cancel", "NAdvance|Advance", "PassBegin", "NFireOne|FireOne", "CbEnd", "PassEnd"]
AS_FOUND = [("rearm_now", "NoSkip"), ("arm_now", "NeverEarly"), ("stale_rearm", "FreshInterval"), ("pick_any", "DeadlineOrder"),
            ("lazy_disable", "NoFireAfterDisable"), ("oneshot_after", "OneShotDisabledInCallback")]


def build_driver(ctx=None):
    """The poll-timeout observation needs a protected member (CommonLoop::getWaitTime); if a refactor removed it the
    driver is built without that observation instead of failing."""
    try:
        return vlib.build("c02_timers", SRC, ["c02_timers/driver.cpp"], flavour="asan", defines=DEFS + ["C02_WAITTIME=1"]), True
    except vlib.Infra as ex:
        if "driver.cpp" not in str(ex):
            raise
        return vlib.build("c02_timers", SRC, ["c02_timers/driver.cpp"], flavour="asan", defines=DEFS), False


# ---------------------------------------------------------------------------------------------------------------------
# model history -> driver script
# ---------------------------------------------------------------------------------------------------------------------
def clean(r):
    o = {"o": r["o"]}
    if r["o"] == "adv":
        o["n"] = r["n"]
    elif r["o"] != "pass":
        o["i"] = r["i"]
        if r["o"] in ("init", "every", "after"):
            o["d"] = r["d"]
        if r["o"] == "init":
            o["m"] = r["m"]
    return o


def script_of(beh, nslots, tail=True):
    """top-level operations in order; callback operations keyed by (slot, n-th invocation of that slot).  Which of several
    timers with equal deadlines the real loop invokes first is its own choice, so the execution need not follow the
    model history step by step -- it only has to be SOME behaviour of the specification, which the validation decides."""
    top, cb, fc, key = [], {}, {}, None
    for r in beh["hist"]:
        if r["o"] == "fire":
            fc[r["i"]] = fc.get(r["i"], 0) + 1
            key = "%d:%d" % (r["i"], fc[r["i"]])
        elif r["cb"] != 0:
            cb.setdefault(key, []).append(clean(r))
        else:
            top.append(clean(r))
    if tail:   # let everything that is still armed show what it does: finish the pass, then two late passes
        top += [{"o": "pass"}, {"o": "adv", "n": 1}, {"o": "pass"}, {"o": "adv", "n": 5}, {"o": "pass"}]
    return {"kind": beh["kind"], "n": nslots, "top": top, "cb": cb}


def dedupe(scripts):
    seen, out = set(), []
    for s in scripts:
        k = json.dumps(s, sort_keys=True)
        if k not in seen:
            seen.add(k)
            out.append(s)
    return out


# ---------------------------------------------------------------------------------------------------------------------
# seeded random scripts (no model knowledge: inapplicable operations are skipped by the driver)
# ---------------------------------------------------------------------------------------------------------------------
def rand_ops(rnd, kind, n, count, dmax, advmax, in_cb=False):
    ops = []
    for _ in range(count):
        i = rnd.randint(1, n)
        r = rnd.random()
        if kind == "event":
            if r < 0.12:
                ops.append({"o": "create", "i": i})
                ops.append({"o": "init", "i": i, "d": rnd.randint(1, dmax), "m": rnd.choice(["oneshot", "persist"])})
                if rnd.random() < 0.8:
                    ops.append({"o": "enable", "i": i})
            elif r < 0.22:
                ops.append({"o": "init", "i": i, "d": rnd.randint(1, dmax), "m": rnd.choice(["oneshot", "persist"])})
            elif r < 0.50:
                ops.append({"o": "enable", "i": i})
            elif r < 0.72:
                ops.append({"o": "disable", "i": i})
                if rnd.random() < 0.4:
                    ops.append({"o": "enable", "i": i})
            elif r < 0.82:
                ops.append({"o": "destroy", "i": i})
            elif r < 0.86:
                ops.append({"o": "create", "i": i})
            else:
                ops.append({"o": "adv", "n": rnd.randint(1, advmax)})
        else:
            if r < 0.30:
                ops.append({"o": "every", "i": i, "d": rnd.randint(1, dmax)})
            elif r < 0.55:
                ops.append({"o": "after", "i": i, "d": rnd.randint(1, dmax)})
            elif r < 0.88:
                ops.append({"o": "cancel", "i": i})
            else:
                ops.append({"o": "adv", "n": rnd.randint(1, advmax)})
    return ops


def rand_script(rnd, family):
    kind = "pool" if rnd.random() < 0.3 else "event"
    if family == "shared":          # many timers sharing one deadline, removal from the middle inside callbacks
        n = rnd.randint(4, 20)
        d = rnd.randint(1, 3)
        top = []
        for i in range(1, n + 1):
            m = rnd.choice(["oneshot", "persist"])
            di = d if rnd.random() < 0.8 else rnd.randint(1, 3)
            if kind == "event":
                top += [{"o": "create", "i": i}, {"o": "init", "i": i, "d": di, "m": m}, {"o": "enable", "i": i}]
            else:
                top.append({"o": "every" if m == "persist" else "after", "i": i, "d": di})
        passes, dmax, advmax, pcb = rnd.randint(2, 5), 3, 2 * d + 2, 0.5
    elif family == "late":          # persistent timers with short periods, the loop wakes several periods late
        n = rnd.randint(2, 6)
        top = []
        for i in range(1, n + 1):
            di = rnd.randint(1, 4)
            m = "persist" if rnd.random() < 0.75 else "oneshot"
            if kind == "event":
                top += [{"o": "create", "i": i}, {"o": "init", "i": i, "d": di, "m": m}, {"o": "enable", "i": i}]
            else:
                top.append({"o": "every" if m == "persist" else "after", "i": i, "d": di})
            if rnd.random() < 0.3:
                top.append({"o": "adv", "n": rnd.randint(1, 3)})
        passes, dmax, advmax, pcb = rnd.randint(2, 5), 4, 14, 0.35
    else:                           # general mix
        n = rnd.randint(1, 8)
        top = rand_ops(rnd, kind, n, rnd.randint(2, 3 * n), 6, 4)
        passes, dmax, advmax, pcb = rnd.randint(3, 9), 6, 9, 0.4
    for _ in range(passes):
        if rnd.random() < 0.85:
            top.append({"o": "adv", "n": rnd.randint(1, advmax)})
        top.append({"o": "pass"})
        if rnd.random() < 0.6:
            top += rand_ops(rnd, kind, n, rnd.randint(1, 4), dmax, advmax)
    top.append({"o": "pass"})
    cb = {}
    for i in range(1, n + 1):
        for k in range(1, 9):
            if rnd.random() < pcb:
                cb["%d:%d" % (i, k)] = rand_ops(rnd, kind, n, rnd.randint(1, 3), dmax, 3, True)
    return {"kind": kind, "n": n, "base": rnd.choice([0, 1, 1000, 123456789, 2 ** 40]), "pre": rnd.random() < 0.3, "top": top, "cb": cb}


# ---------------------------------------------------------------------------------------------------------------------
# "huge" family: intervals around the 32-bit boundaries of the millisecond arithmetic (TLC integers are 32-bit, the loop's
# clock is 64-bit).  Scripts are written in model units; the driver applies a duration h*M + r as h*H + r real milliseconds
# (see driver.cpp).  All instants stay within 1000 of a multiple of M, so sums and order are preserved by the relabelling.
# ---------------------------------------------------------------------------------------------------------------------
HUGE_M = 1000000
HUGE_H = [2 ** 31 - 1, 2 ** 31, 2 ** 31 + 1, 2 ** 32 - 1, 2 ** 32, 2 ** 32 + 5, 2592000000,          # 30 days
          2 ** 33 + 7, 3 * 2 ** 32 + 2 ** 31 + 9, 2 ** 34 + 1]


def huge_script(rnd, H, kind, mode_a, mix, with_b):
    """slot 1: huge timer A; slot 2: huge timer B (optional); slot 3: small one-shot; slot 4: small persistent (mix 2 only,
    removed between passes before the clock makes a huge step, never touched by callbacks: it would owe ~H periods).
    Passes at small times (A must stay silent, also right after the last small timer was popped), then one ms before, at and
    after A's deadlines, several periods late, after removal, after re-enable from its own callback."""
    M = HUGE_M
    top, cb, now = [], {}, [0]
    ev = kind == "event"

    def arm(i, d, m):
        if ev:
            top.extend([{"o": "create", "i": i}, {"o": "init", "i": i, "d": d, "m": m}, {"o": "enable", "i": i}])
        else:
            top.append({"o": "every" if m == "persist" else "after", "i": i, "d": d})

    def remove(i):
        top.append({"o": rnd.choice(["disable", "destroy"]) if ev else "cancel", "i": i})

    def adv(n):
        if n > 0:
            top.append({"o": "adv", "n": n})
            now[0] += n

    def ps():
        top.append({"o": "pass"})

    d_a = rnd.choice([1, 1, 2]) * M + rnd.choice([0, 0, 1, 2, 7])
    d_b = rnd.choice([1, 2, 3]) * M + rnd.choice([0, 1, 5])
    d3, d4 = rnd.randint(1, 4), rnd.randint(1, 3)
    if rnd.random() < 0.3:
        adv(rnd.randint(1, 3))
    groups = [1] + ([2] if with_b else []) + ([3] if mix >= 1 else []) + ([4] if mix >= 2 else [])
    rnd.shuffle(groups)
    arm_a = 0
    for g in groups:
        if g == 1:
            arm(1, d_a, mode_a)
            arm_a = now[0]
        elif g == 2:
            arm(2, d_b, rnd.choice(["oneshot", "persist"]))
        elif g == 3:
            arm(3, d3, "oneshot")
        else:
            arm(4, d4, "persist")
        if rnd.random() < 0.2:
            adv(1)
    ps()                                             # a pass at once: nothing is due
    for _ in range(rnd.randint(2, 4)):               # small times: only the small timers may fire
        adv(rnd.randint(1, 3))
        ps()
    if mix >= 2:
        remove(4)
        ps()
        adv(rnd.randint(1, 2))
        ps()
    if mix >= 1 and rnd.random() < 0.6:              # the small one-shot once more: when it is popped a huge timer is the heap top
        top.append({"o": "enable", "i": 3} if ev else {"o": "after", "i": 3, "d": d3})
        adv(d3 + rnd.randint(0, 2))
        ps()
        if with_b and rnd.random() < 0.3:
            cb["3:2"] = [{"o": "destroy" if ev else "cancel", "i": 2}]
    dl = arm_a + d_a
    style = rnd.choice(["before", "before", "at", "after"])
    if style == "before":
        adv(dl - now[0] - 1)
        ps()
        adv(1)
    elif style == "at":
        adv(dl - now[0])
    else:
        adv(dl - now[0] + rnd.randint(1, 5))
    ps()
    if mode_a == "persist":
        if ev and rnd.random() < 0.3:
            cb["1:2"] = [{"o": "disable", "i": 1}, {"o": "enable", "i": 1}]      # fresh full (huge) interval from inside the callback
        dl += d_a
        adv(dl - now[0] - 1)
        ps()
        adv(1)
        ps()
        adv(2 * d_a + 1)                             # two periods late
        ps()
        remove(1)
        adv(d_a)
        ps()
    else:
        if ev and rnd.random() < 0.6:
            cb["1:1"] = [{"o": "enable", "i": 1}]    # one-shot re-armed from its own callback
        elif not ev and rnd.random() < 0.6:
            if mix < 2:
                cb["1:1"] = [{"o": "after", "i": 4, "d": d_a}]      # a new huge one-shot from inside the callback (slot 4 is free)
        adv(rnd.randint(1, 3))
        ps()
        adv(d_a - 4)
        ps()
        adv(1)
        ps()
        adv(5)
        ps()
    ps()
    sc = {"kind": kind, "n": 4, "base": rnd.choice([0, 1, 1000, 2 ** 32 - 3, 2 ** 40]), "pre": rnd.random() < 0.3, "M": M, "H": str(H),
          "top": top, "cb": cb}
    huge_check(sc)
    return sc


def huge_check(sc):
    """generator self-check: no small persistent timer can be armed while the clock makes a huge step (it would owe ~H periods),
    and every instant stays within 1000 of a multiple of M (soundness of the relabelling)."""
    M, small, now = sc["M"], set(), 0
    for ops in sc["cb"].values():
        for op in ops:
            if op["o"] in ("init", "every") and op.get("m", "persist") == "persist" and op["d"] < M // 2:
                raise vlib.Infra("huge script: callback arms a small persistent timer")
            if op.get("i") == 4 and sc["kind"] == "event":
                raise vlib.Infra("huge script: callback touches the small persistent slot")
    for op in sc["top"]:
        o = op["o"]
        if o in ("init", "every") and op.get("m", "persist") == "persist" and op["d"] < M // 2:
            small.add(op["i"])
        elif o in ("destroy", "cancel", "disable") or (o in ("init", "after") and op["i"] in small):
            small.discard(op["i"])
        elif o == "adv":
            now += op["n"]
            if op["n"] >= M // 2 and small:
                raise vlib.Infra("huge script: huge clock step while a small persistent timer may be armed")
            r = (now + M // 2) % M - M // 2
            if abs(r) > 1000:
                raise vlib.Infra("huge script: instant %d too far from a multiple of M" % now)


def guard_script(rnd, kind, hsel):
    """slot 1: a "never" guard timer with a near-maximum interval (2^62, 2^63-1-base, INT64_MAX = milliseconds::max() ms), armed
    with model interval M and never due (the clock only makes small steps here); slots 2..4: ordinary small timers that are
    enabled / disabled / re-enabled / destroyed / cancelled between passes and from callbacks, and fire.  The guard only has to
    sit in the loop's heap while the others are removed (deadlines >= 2^63 away from any marker the loop may use)."""
    M, top, cb = HUGE_M, [], {}
    ev = kind == "event"
    base = rnd.choice([0, 1, 1000, 2 ** 32, 2 ** 40])
    H = [2 ** 62, 2 ** 63 - 1 - base, 2 ** 63 - 1][hsel]

    def arm(i, d, m, out):
        if ev:
            out.extend([{"o": "create", "i": i}, {"o": "init", "i": i, "d": d, "m": m}, {"o": "enable", "i": i}])
        else:
            out.append({"o": "every" if m == "persist" else "after", "i": i, "d": d})

    def small_ops(count):
        ops = []
        for _ in range(count):
            i, r = rnd.randint(2, 4), rnd.random()
            if r < 0.35:
                ops.append({"o": "disable" if ev else "cancel", "i": i})
                if ev and rnd.random() < 0.5:
                    ops.append({"o": "enable", "i": i})
            elif r < 0.55:
                ops.append({"o": "destroy" if ev else "cancel", "i": i})
            elif r < 0.8:
                arm(i, rnd.randint(1, 4), rnd.choice(["oneshot", "persist"]), ops)
            elif r < 0.9 and ev:
                ops.append({"o": "enable", "i": i})
            else:
                ops.append({"o": "adv", "n": 1})
        return ops

    order = [1, 2, 3, 4]
    rnd.shuffle(order)
    for i in order:
        if i == 1:
            arm(1, M, rnd.choice(["oneshot", "persist"]), top)
        elif rnd.random() < 0.85:
            arm(i, rnd.randint(1, 4), rnd.choice(["oneshot", "persist"]), top)
    if rnd.random() < 0.7:
        top.extend(small_ops(rnd.randint(1, 3)))        # e.g. a timeout called off before the loop looks at it
    for _ in range(rnd.randint(4, 8)):
        top.append({"o": "pass"})
        if rnd.random() < 0.8:
            top.append({"o": "adv", "n": rnd.randint(1, 3)})
        if rnd.random() < 0.7:
            top.extend(small_ops(rnd.randint(1, 3)))
        if rnd.random() < 0.1:                          # the guard itself re-armed
            top.extend([{"o": "disable", "i": 1}, {"o": "enable", "i": 1}] if ev else
                       [{"o": "cancel", "i": 1}, {"o": "after", "i": 1, "d": M}])
    top.extend([{"o": "pass"}, {"o": "adv", "n": 4}, {"o": "pass"}])
    for i in (2, 3, 4):
        for k in range(1, 7):
            if rnd.random() < 0.4:
                cb["%d:%d" % (i, k)] = small_ops(rnd.randint(1, 2))
    total = sum(op.get("n", 0) for op in top if op["o"] == "adv") + 12 * 7 * 2
    if total >= 1000:
        raise vlib.Infra("guard script: clock moves too far")
    return {"kind": kind, "n": 4, "base": base, "pre": rnd.random() < 0.4, "M": M, "H": str(H), "top": top, "cb": cb}


def guard_scripts(rnd, reps):
    return [guard_script(rnd, kind, hsel) for _ in range(reps) for kind in ("event", "pool") for hsel in (0, 1, 2)]


def huge_scripts(rnd, reps):
    out = []
    for _ in range(reps):
        for H in HUGE_H:
            for kind in ("event", "pool"):
                for mode_a in ("oneshot", "persist"):
                    for mix in (0, 1, 2):
                        out.append(huge_script(rnd, H, kind, mode_a, mix, rnd.random() < 0.4))
    return out


# ---------------------------------------------------------------------------------------------------------------------
def run_scripts(ctx, exe, scripts, tag, engines, cfg, counted_as):
    sp = ctx.tmp(tag + ".jsonl")
    with open(sp, "w") as f:
        for s in scripts:
            f.write(json.dumps(s) + "\n")
    tr = ctx.tmp(tag + ".ndjson")
    ok, n = vlib.record_and_validate(ctx, exe, ["run", engines, sp, tr], tr, "Timers", "Trace_Timers.tla", cfg,
                                     "%d scripts (%s, engines=%s)" % (len(scripts), tag, engines), timeout=420)
    if ok and counted_as == "replay":
        ctx.traces_ok -= n
        ctx.replays_ok += n
    return ok, tr


def script_from_trace(lines):
    """--replay: rebuild the script from a saved (rejected) execution."""
    ev = [json.loads(x) for x in lines if x.strip().startswith("{")]
    kind, n, engine, base, pre, hm, hh = "event", 3, "epoll", 0, False, 0, "0"
    top, cb, key = [], {}, None
    for e in ev:
        t = e["e"]
        if t == "Reset":
            continue
        if t == "info":
            kind, n, engine = e.get("kind", kind), e.get("n", n), e.get("engine", engine)
            base, pre = int(e.get("base", "0")), e.get("pre", False)
            hm, hh = e.get("M", 0), e.get("H", "0")
        elif t == "fire":
            key = "%d:%d" % (e["i"], e["k"])
        elif t == "pass":
            top.append({"o": "pass"})
        elif t in ("cbend", "passend", "Fault"):
            continue
        else:
            op = {"o": t, "i": e.get("i", 0)}
            for f in ("d", "m", "n"):
                if f in e:
                    op[f] = e[f]
            (cb.setdefault(key, []) if e.get("cb", 0) else top).append(op)
    top.append({"o": "pass"})
    sc = {"kind": kind, "n": max(n, 1), "base": base, "pre": pre, "top": top, "cb": cb}
    if hm:
        sc["M"], sc["H"] = hm, hh
    return sc, engine


def fork(ctx, name):
    """Independent TLC/driver jobs run side by side; each gets its own scratch directory and counters (summed in join)."""
    c = copy.copy(ctx)
    c.work = os.path.join(ctx.work, name)
    os.makedirs(c.work, exist_ok=True)
    c.states = c.transitions = c.traces_ok = c.replays_ok = 0
    c._n = 0
    c.actions = {}
    c.mc_runs = []
    return c


def join(ctx, subs):
    for c in subs:
        ctx.states += c.states
        ctx.transitions += c.transitions
        ctx.traces_ok += c.traces_ok
        ctx.replays_ok += c.replays_ok
        ctx.mc_runs += c.mc_runs
        for k, v in c.actions.items():
            t = ctx.actions.setdefault(k, [0, 0])
            t[0] += v[0]
            t[1] += v[1]


def run(ctx):
    exe, has_wait = build_driver(ctx)
    ctx.fault_observers = ["AddressSanitizer+UBSan on the harness build (timer records, heap vector, pooled storage)",
                           "terminate/signal handlers (TBOX_ASSERT is active in the harness build)"]
    if not has_wait:
        ctx.notes.append("CommonLoop::getWaitTime() not accessible: poll-timeout bound not observed in this run")
    if ctx.replay_path:
        lines = open(ctx.replay_path).read().splitlines()
        if not any(x.startswith('{"e":"Reset"') for x in lines):      # a model-level counterexample: re-check the models
            ctx.tlc_mc("Timers", "MC_Timers.tla", "MC_quick.cfg", coverage=False)
            ctx.tlc_mc("Timers", "MC_Timers.tla", "MC_shared.cfg", coverage=False)
            return
        sc, engine = script_from_trace(lines)
        run_scripts(ctx, exe, [sc], "replay", engine, "Trace_Timers.cfg", "replay")
        return
    quick = ctx.quick()
    both = "alt" if quick else "both"
    half = max(2, vlib.NCPU // 2)

    # 1. the design: exhaustive on small scopes; each wrong mechanism variant must violate "its" invariant -----------
    def j_mc(c):
        c.tlc_mc("Timers", "MC_Timers.tla", "MC_cov.cfg", required_actions=ACTIONS, workers=half)            # vacuity guard
        c.tlc_mc("Timers", "MC_Timers.tla", "MC_quick.cfg" if quick else "MC_thorough.cfg", coverage=False, timeout=2400, workers=half)

    def j_mc2(c):
        c.tlc_mc("Timers", "MC_Timers.tla", "MC_shared.cfg" if quick else "MC_shared4.cfg", coverage=False, timeout=2400,
                 workers=2 if quick else half)
        if not quick:
            c.tlc_mc("Timers", "MC_Timers.tla", "MC_ops2.cfg", coverage=False, timeout=2400, workers=half)
        for variant, inv in AS_FOUND:
            c.tlc_mc("Timers", "MC_Timers.tla", "AF_%s.cfg" % variant, expect=inv, coverage=False, timeout=300, workers=2)

    # 2. spec -> code ------------------------------------------------------------------------------------------------
    def j_focus(c):
        behs = c.tlc_gen("Timers", "Gen_Timers.tla", "Gen_focus.cfg" if quick else "Gen_focus_thorough.cfg", timeout=900, workers=2)
        scripts = dedupe([script_of(b, 3) for b in behs])
        run_scripts(c, exe, scripts, "focus", both, "Trace_small.cfg", "replay")
        return scripts

    def j_pool(c):
        behs = c.tlc_gen("Timers", "Gen_Timers.tla", "Gen_focus_pool.cfg" if quick else "Gen_focus_pool_thorough.cfg", timeout=900, workers=2)
        scripts = dedupe([script_of(b, 3) for b in behs])
        run_scripts(c, exe, scripts, "focus_pool", both, "Trace_small.cfg", "replay")
        return scripts

    def j_deep(c):
        deep = c.tlc_gen("Timers", "Gen_Timers.tla", "Gen_sim.cfg", simulate=(1000 if quick else 20000, 90), timeout=900, workers=2)
        scripts = dedupe([script_of(b, 4) for b in deep])
        run_scripts(c, exe, scripts, "deep", "alt", "Trace_small.cfg", "replay")
        return scripts

    # 3. code -> spec: seeded random scripts ---------------------------------------------------------------------------
    def j_random(c):
        rnd = random.Random(ctx.seed)
        nrand = 1200 if quick else 15000
        rs = [rand_script(rnd, ("general", "shared", "late")[j % 3]) for j in range(nrand)]
        ok, tr = run_scripts(c, exe, rs, "random", both, "Trace_Timers.cfg", "trace")
        return [json.loads(x) for x in vlib.read_lines(tr, 1, 14)]

    def j_huge(c):
        hs = huge_scripts(random.Random(ctx.seed * 7919 + 1), 1 if quick else 12)
        gs = guard_scripts(random.Random(ctx.seed * 104729 + 2), 15 if quick else 150)
        run_scripts(c, exe, hs + gs, "huge", "both", "Trace_small.cfg", "trace")
        return hs

    jobs = [("mc", j_mc), ("focus", j_focus), ("mc2", j_mc2), ("pool", j_pool), ("random", j_random), ("deep", j_deep), ("huge", j_huge)]
    only = os.environ.get("C02_JOBS")          # development knob: run a subset of the jobs (evidence is then partial)
    if only:
        jobs = [(n, f if n in only.split(",") else (lambda c: None)) for n, f in jobs]
    subs = [fork(ctx, n) for n, _ in jobs]
    with cf.ThreadPoolExecutor(max_workers=max(3, min(6, vlib.NCPU // 2))) as ex:
        futs = [ex.submit(f, c) for (n, f), c in zip(jobs, subs)]
        res = []
        err = None
        for f in futs:
            try:
                res.append(f.result())
            except vlib.Infra as e:      # let the other jobs finish, then report
                err = err or e
                res.append(None)
    join(ctx, subs)
    if err and not ctx.violations:
        raise err
    if err:
        ctx.notes.append("an infrastructure error in one job was not reported because violations were found: %s" % str(err)[:300])
    ctx.exhaustive = True
    _, focus, _, pool, first, deep, huge = res
    if only:
        ctx.notes.append("partial run: C02_JOBS=" + only)
        return
    ctx.notes.append("focus family (3 preloaded timers, every interval/mode assignment, late wake-up, every <=1-operation callback of "
                     "the first invocations): %d TimerEvent scripts, %d TimerPool scripts; %d random deep model histories" %
                     (len(focus), len(pool), len(deep)))
    ctx.sample({"kind": "model history turned into a script and executed on the real loop", "script": focus[len(focus) // 2]})
    ctx.sample({"kind": "TimerPool script from the model", "script": pool[len(pool) // 2]})
    ctx.sample({"kind": "recorded trace (first events)", "events": first})
    ctx.sample({"kind": "huge-interval script (model units; the driver applies h*M+r as h*H+r ms)", "script": huge[6 * 12 + 1]})
    ctx.notes.append("huge family: %d scripts x 2 engines, unit H in %s ms, intervals H, 2H, 3H (+0..7 ms), alone and mixed with small "
                     "timers, passes at small times, 1 ms before / at / after the deadlines, two periods late; plus %d 'never-guard' scripts (a timer "
                     "of 2^62 / 2^63-1-base / INT64_MAX ms armed while small timers are enabled, disabled, destroyed and fire)" %
                     (len(huge), HUGE_H, 90 if quick else 900))
    ctx.assumptions = [
        "intervals are >= 1 ms (the statement's d >= 1); interval 0 is not generated",
        "a TimerEvent is not deleted from inside its own callback (the destructor asserts cb_level_ == 0); a TimerPool timer "
        "cancelling itself from its own callback is covered",
        "one loop iteration is one pass: the in-loop driver keeps a runNext task pending, so the loop never sleeps; the virtual "
        "clock moves only when the script says so (between passes and inside callbacks)",
        "timers with equal deadlines may fire in any order; whether a pass latches the clock once or re-reads it is left open",
        "huge family: a duration h*M+r of the script (M = 10^6 model units) is applied to the real loop as h*H+r ms (H around 2^31..2^34, "
        "30 days); all instants stay within 1000 of a multiple of M, so the relabelling preserves sums and order and the unchanged "
        "trace specification decides the relabelled execution",
    ]
    ctx.uncovered = ["timing against the real monotonic clock and real sleeping in epoll_wait/select (decided under the virtual "
                     "clock only; the computed poll timeout is checked against the nearest deadline instead)",
                     "TimerPool::doAt (wall-clock based) and TimerPool::cleanup()"]
