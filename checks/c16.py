# C16 - Hierarchical state machine conforms to its reference semantics ("program as data").
#   model:   spec/Hfsm/Hfsm.tla: the reference semantics of start/stop/restart/run(ev) as TLA+ operators over a PROGRAM
#            (machines, ordered routes with ANY + guards, handlers, nested machines, scripts, re-entrant attempts); the
#            clauses of the statement are separate invariants.  TLC enumerates families of small programs
#            (MC_Hfsm.tla) x all call sequences; wrong variants (incl. the two as-found defects) must violate their clause.
#   binding: harness/c16_hfsm/driver.cpp builds real StateMachine objects from a program and records per call the
#            observed callbacks, return value and reported state; Trace_Hfsm.tla recomputes every call with the same
#            operators and demands equality.  Programs/call sequences: TLC enumeration (exhaustive, small), TLC
#            simulation (long), seeded random generator (3-4 nesting levels, up to ~10 states per program).  Every program is
#            built by replaying a random legal ORDER of definition calls; re-entrant attempts also go from nested machines to
#            their ancestors while those are still inside run() (activation of the nested machine).
import concurrent.futures as cf
import json
import os
import random
import re
import time
import vlib

SRC = vlib.BASE_SRC + ["flow/state_machine.cpp"]
SPEC = "Hfsm"
CLAUSES = ["DefinedActionsRun", "ExitActionEnterOrder", "OncePerTransition", "StartStopShape", "EnterExitBalanced", "EnteredIffCurrent",
           "HandlerBeforeRoutes", "FirstMatchingRoute", "SubMachineFirstUntilTerminated", "ReentrantCallsRejected", "StateSane"]
# wrong semantics -> (family it is shown on, clause it must violate)
VARIANTS = [("stop_keeps_sub", "nestq", "EnterExitBalanced"),          # as found: stop() left the nested machine running
            ("stuck_parent", "nestq", "SubMachineFirstUntilTerminated"),  # as found: stopped nested machine still consulted
            ("parent_first", "nestq", "SubMachineFirstUntilTerminated"),
            ("reverse_scan", "flat2q", "FirstMatchingRoute"),
            ("handler_ignored", "flat2q", "HandlerBeforeRoutes"),
            ("enter_first", "flat2q", "ExitActionEnterOrder"),
            ("exit_twice", "flat2q", "OncePerTransition"),
            ("no_reent_guard", "reent_enter", "ReentrantCallsRejected"),
            ("guard_released_early", "reent_enter", "ReentrantCallsRejected"),  # nested machine activated outside the guard
            ("route_bound_early", "nestq", "DefinedActionsRun"),
            ("handler_first_wins", "dupq", "HandlerBeforeRoutes"),              # a second addEvent() for the same event is dropped
            ("terminated_ignores_events", "term0q", "SubMachineFirstUntilTerminated")]  # run() returns early in a user-defined state 0                # route to 0 bypasses the user's terminal state


def par_mc(ctx, jobs):
    """Run several TLC model-checking jobs concurrently (helper local to this check: ctx.tlc_mc is sequential).
    job = dict(label, cfg, expect, workers, timeout).  Book-keeping mirrors Ctx.tlc_mc and happens on the main thread.
    No -coverage: TLC's cost model runs out of memory on the recursive operators (see coverage_guard)."""
    d = os.path.join(vlib.SPEC, SPEC)

    def run(job):
        cmd = vlib._tlc_cmd("MC_Hfsm.tla", job["cfg"], job["meta"], job["workers"], [], ("-Xmx3g",))
        t = time.time()
        rc, out = vlib.sh(cmd, timeout=job.get("timeout", 900), cwd=d)
        return job, rc, out, round(time.time() - t, 1)

    for j in jobs:
        j["meta"] = ctx.metadir()
    with cf.ThreadPoolExecutor(max_workers=max(1, min(len(jobs), vlib.NCPU))) as ex:
        results = list(ex.map(run, jobs))
    for job, rc, out, wall in results:
        r = vlib._parse_tlc(out)
        lab, expect = job["label"], job["expect"]
        if rc == 124:
            raise vlib.Infra("TLC timeout on %s" % lab)
        if expect == "ok":
            if r["violated"]:
                path = ctx.save_replay("mc-" + re.sub(r"\W", "_", lab), out)
                ctx.violation("model %s violates %s" % (lab, r["violated"]), path)
            elif rc != 0:
                raise vlib.Infra("TLC failed (rc=%d) on %s:\n%s" % (rc, lab, out[-3000:]))
            if r["distinct"] < 100 or r["depth"] < 5:
                raise vlib.Infra("vacuity guard: %s explored only %d states to depth %d" % (lab, r["distinct"], r["depth"]))
        elif r["violated"] != expect:
            raise vlib.Infra("expected %s to violate %s (non-vacuity), got %s\n%s" % (lab, expect, r["violated"], out[-2000:]))
        ctx.states += r["distinct"]
        ctx.transitions += r["states"]
        ctx.mc_runs.append({"model": lab, "expect": expect, "distinct_states": r["distinct"], "states_generated": r["states"],
                            "depth": r["depth"], "wall_s": wall, "mode": "bfs-exhaustive"})
        ctx.log("TLC %-44s %s distinct=%d gen=%d depth=%d %.1fs" % (
            lab, "ok" if expect == "ok" else "violates " + expect + " (expected)", r["distinct"], r["states"], r["depth"], wall))


def model_check(ctx):
    n = vlib.NCPU
    fams = (["flat2q", "nestq", "reent_enter", "dupq", "term0q", "init0q"] if ctx.quick()
            else ["flat3", "nest", "reent", "dup", "term0", "init0"])
    jobs = []
    for fam in fams:
        jobs.append({"label": "MC_Hfsm/%s (reference semantics, all clauses)" % fam, "expect": "ok",
                     "cfg": "MC_%s.cfg" % fam,
                     "workers": max(1, n // len(fams)),
                     "timeout": 900 if ctx.quick() else 3000})
    par_mc(ctx, jobs)
    # wrong variants: each must violate exactly its clause (only that clause is listed -> non-vacuity of that clause)
    jobs = []
    for var, fam, clause in VARIANTS:
        jobs.append({"label": "MC_Hfsm/%s variant=%s" % (fam, var), "expect": clause,
                     "cfg": "MC_var_%s.cfg" % var, "workers": 1, "timeout": 900})
    par_mc(ctx, jobs)


# ------------------------------------------------------------------------------------------------------------------
# seeded random programs (bigger than the enumerated families: 3-4 nesting levels, non-consecutive state ids, states
# without callbacks, user-defined terminal states, several handlers, guards sharing nothing, re-entrant attempts)
# ------------------------------------------------------------------------------------------------------------------
def gen_program(rnd):
    ne = rnd.randint(2, 3)
    nm = rnd.choice([1, 2, 3, 3, 3, 4, 4])
    ms, gs, hs, re_, na = [], [], [], [], [0]
    for m in range(1, nm + 1):
        k = rnd.randint(1, 4) if m > 1 else rnd.randint(2, 4)
        ids = rnd.sample(range(1, 10), k)
        ss = [{"id": i, "en": int(rnd.random() < 0.8), "ex": int(rnd.random() < 0.8), "sub": 0, "rs": [], "hd": []} for i in ids]
        init = rnd.choice(ids)
        if rnd.random() < 0.35:
            if m > 1 and rnd.random() < 0.08:
                ids, ss = [], []              # a machine whose only state is its own state 0
            ss.insert(rnd.randint(0, len(ss)), {"id": 0, "en": int(rnd.random() < 0.8), "ex": int(rnd.random() < 0.8),
                                                "sub": 0, "rs": [], "hd": []})
            if not ids or rnd.random() < 0.25:
                init = 0                      # the user-defined state 0 is the initial state (an ordinary state id)
        ms.append({"init": init, "cc": int(rnd.random() < 0.8), "ss": ss})
    # nesting: machine m > 1 hangs under a state of an earlier machine; prefer chains (depth >= 2)
    parent = {}
    for m in range(2, nm + 1):
        parents = [m - 1] if rnd.random() < 0.7 else list(range(1, m))
        rnd.shuffle(parents)
        for pm in parents + list(range(1, m)):
            free = [s for s in ms[pm - 1]["ss"] if s["id"] != 0 and s["sub"] == 0]
            if free:
                rnd.choice(free)["sub"] = m
                parent[m] = pm
                break
    for m in range(1, nm + 1):
        M = ms[m - 1]
        ids = [s["id"] for s in M["ss"] if s["id"] != 0]
        targets = ids * 2 + [0, 0] if m > 1 else ids * 4 + [0]
        for s in M["ss"]:
            if s["id"] == 0 and rnd.random() < 0.5:
                continue          # a plain terminal state; otherwise state 0 is an ordinary state with handlers and ways out
            for _ in range(rnd.choice([0, 1, 1, 2, 2, 2, 3, 3, 4])):
                r = {"ev": 0 if rnd.random() < 0.25 else rnd.randint(1, ne), "to": rnd.choice(targets), "g": 0, "a": 0}
                if rnd.random() < 0.4:
                    gs.append([rnd.randint(0, 1) for _ in range(rnd.randint(1, 3))])
                    r["g"] = len(gs)
                if rnd.random() < 0.5:
                    na[0] += 1
                    r["a"] = na[0]
                s["rs"].append(r)
            evs = []
            if rnd.random() < 0.3:
                evs.append(rnd.randint(1, ne))
            if rnd.random() < 0.15:
                evs.append(rnd.choice([e for e in range(1, ne + 1) if e not in evs]))
            if rnd.random() < 0.2:
                evs.append(0)
            if evs and rnd.random() < 0.35:
                evs.append(rnd.choice(evs))     # registered again for the same event: the later handler replaces the earlier
                rnd.shuffle(evs)
            for e in evs:
                hs.append([(-1 if rnd.random() < 0.55 else rnd.choice(targets)) for _ in range(rnd.randint(1, 3))])
                s["hd"].append({"ev": e, "h": len(hs)})
    sites = []
    if rnd.random() < 0.45:
        for m in range(1, nm + 1):
            M = ms[m - 1]
            if M["cc"]:
                sites.append((m, "C", 0))
            for s in M["ss"]:
                if s["en"]:
                    sites.append((m, "E", s["id"]))
                if s["ex"]:
                    sites.append((m, "X", s["id"]))
                for r in s["rs"]:
                    if r["g"]:
                        sites.append((m, "G", r["g"]))
                    if r["a"]:
                        sites.append((m, "A", r["a"]))
                for h in s["hd"]:
                    sites.append((m, "H", h["h"]))
        for _ in range(rnd.randint(1, 3)):
            if sites:
                m, k, i = rnd.choice(sites)
                op = rnd.randint(1, 4)
                t = m
                if m in parent and rnd.random() < 0.5:
                    # attempt on the parent / an outer ancestor from a callback of the nested machine; it is made only
                    # while that ancestor is activating the nested machine (see Hfsm!Fire), which needs its notification
                    t = parent[m]
                    while t in parent and rnd.random() < 0.3:
                        t = parent[t]
                    ms[t - 1]["cc"] = 1
                    op = rnd.choice([2, 2, 3, 4])
                    if rnd.random() < 0.5:      # the nested machine's initial enter action is the first thing an activation runs
                        init = [x for x in ms[m - 1]["ss"] if x["id"] == ms[m - 1]["init"]][0]
                        init["en"] = 1
                        k, i = "E", init["id"]
                re_.append({"m": m, "k": k, "id": i, "c": [op, rnd.randint(1, ne) if op == 4 else 0], "t": t})
    return {"ne": ne, "ms": ms, "gs": gs, "hs": hs, "re": re_}


def definition_order(rnd, p):
    """A random LEGAL order of the definition calls of program p (Hfsm!DefsLegal): the reference semantics does not depend
    on it, the driver replays it.  Routes to the terminal state 0 may precede the user's own newState(0, ...)."""
    deps = {}
    for m, M in enumerate(p["ms"], 1):
        sidx = {S["id"]: si for si, S in enumerate(M["ss"], 1)}
        for si, S in enumerate(M["ss"], 1):
            s_op = ("S", m, si, 0)
            deps[s_op] = set()
            prev = None
            for j, R in enumerate(S["rs"], 1):
                d = {s_op}
                if prev:
                    d.add(prev)
                if R["to"] != 0:
                    d.add(("S", m, sidx[R["to"]], 0))
                prev = ("R", m, si, j)
                deps[prev] = d
            prev = None
            for j, _ in enumerate(S["hd"], 1):                # handlers of one state in registration order (a later one
                deps[("H", m, si, j)] = {s_op} | ({prev} if prev else set())   # for the same event replaces the earlier)
                prev = ("H", m, si, j)
            if S["sub"]:
                deps[("U", m, si, 0)] = {s_op}
    style = rnd.random()
    order, done, todo = [], set(), sorted(deps)
    while todo:
        ready = [o for o in todo if deps[o] <= done]
        if style < 0.25:                      # the usual style: all states first
            st = [o for o in ready if o[0] == "S"]
            ready = st or ready
        elif style < 0.5:                     # as late as possible: a state is declared when something needs it
            late = [o for o in ready if o[0] != "S"]
            ready = late or ready
        o = rnd.choice(ready)
        order.append(o)
        done.add(o)
        todo.remove(o)
    for m, M in enumerate(p["ms"], 1):
        if rnd.random() < 0.5:
            # the usual way to make a state initial: declare it first and do not call setInitState (declarations have no
            # prerequisites, so moving one to the front of its machine's declarations keeps the order legal)
            si = [i for i, S in enumerate(M["ss"], 1) if S["id"] == M["init"]][0]
            firstpos = min(i for i, o in enumerate(order) if o[0] == "S" and o[1] == m)
            order.remove(("S", m, si, 0))
            order.insert(firstpos, ("S", m, si, 0))
        first = [o for o in order if o[0] == "S" and o[1] == m]
        if not first or M["ss"][first[0][2] - 1]["id"] != M["init"] or rnd.random() < 0.3:
            order.insert(rnd.randint(0, len(order)), ("I", m, 0, 0))
    return [list(o) for o in order]


def gen_calls(rnd, ne, n):
    calls = [[1, 0]] if rnd.random() < 0.9 else []
    stopped = not calls
    for _ in range(n):
        x = rnd.random()
        if stopped and x < 0.7:
            c = [1, 0] if x < 0.55 else [3, 0]
        elif x < 0.84:
            c = [4, rnd.randint(1, ne)]
        elif x < 0.89:
            c = [2, 0]
        elif x < 0.93:
            c = [1, 0]
        else:
            c = [3, 0]
        calls.append(c)
        stopped = c[0] == 2 or (stopped and c[0] == 4)
    if rnd.random() < 0.9:
        calls.append([2, 0])          # "... by the time the machine is stopped"
    return calls


# ------------------------------------------------------------------------------------------------------------------
def validate(ctx, exe, execs, tag, what, replays=False):
    inp = ctx.tmp(tag + ".jsonl")
    drnd = random.Random(ctx.seed * 7919 + len(execs))
    execs = [e if "defs" in e["p"] else {"p": dict(e["p"], defs=definition_order(drnd, e["p"])), "calls": e["calls"]} for e in execs]
    with open(inp, "w") as f:
        for e in execs:
            f.write(json.dumps(e, separators=(",", ":")) + "\n")
    tr = ctx.tmp(tag + ".ndjson")
    # bigger thread stacks: the nested quantifiers of Hfsm!DefsLegal overflow TLC's default worker stack on long definitions
    ok, n = vlib.record_and_validate(ctx, exe, ["run", inp, tr], tr, SPEC, "Trace_Hfsm.tla", "Trace_Hfsm.cfg",
                                     "%s: %d executions" % (what, len(execs)), tlc_env={"JAVA_TOOL_OPTIONS": "-Xss64m"})
    if ok and replays:
        ctx.traces_ok -= n
        ctx.replays_ok += n
    return ok, tr


def coverage_guard(ctx, traces):
    """Vacuity guard over the validated traces (TLC's -coverage is unusable on this spec: the cost model runs out of memory
    on the recursive operators).  Every call kind, every callback kind, nested terminations, deep nesting and rejected
    re-entrant calls must actually have occurred in what TLC accepted; otherwise the run proves little -> Infra."""
    cnt = {}

    def add(k, n=1):
        cnt[k] = cnt.get(k, 0) + n

    names = {1: "Start", 2: "Stop", 3: "Restart", 4: "Run"}
    init0 = set()
    for tr in traces:
        with open(tr) as f:
            for line in f:
                if line.startswith('{"e":"Prog"'):
                    pr = json.loads(line)["p"]
                    init0 = set()
                    for mi, M in enumerate(pr["ms"], 1):
                        ds = [d for d in pr.get("defs", []) if d[1] == mi]
                        if (M["init"] == 0 and not any(d[0] == "I" for d in ds)
                                and [d for d in ds if d[0] == "S"][0][2] == [i for i, S in enumerate(M["ss"], 1) if S["id"] == 0][0]):
                            init0.add(mi)
                    seen_term = set()
                    replacing, rich0, prevq = set(), set(), None
                    for mi, M in enumerate(pr["ms"], 1):
                        for S in M["ss"]:
                            evs = [h["ev"] for h in S["hd"]]
                            replacing.update(h["h"] for i, h in enumerate(S["hd"]) if h["ev"] in evs[:i])
                            if S["id"] == 0 and (S["rs"] or S["hd"]):
                                rich0.add(mi)
                    for d in pr.get("defs", []):
                        if d[0] == "S" and pr["ms"][d[1] - 1]["ss"][d[2] - 1]["id"] == 0:
                            seen_term.add(d[1])
                        if (d[0] == "R" and pr["ms"][d[1] - 1]["ss"][d[2] - 1]["rs"][d[3] - 1]["to"] == 0 and d[1] not in seen_term
                                and any(x["id"] == 0 for x in pr["ms"][d[1] - 1]["ss"])):
                            add("route_to_terminal_registered_before_user_terminal_state")
                            break
                    continue
                if not line.startswith('{"e":"Call"'):
                    continue
                e = json.loads(line)
                add(names[e["c"][0]])
                if e["c"][0] == 2 and sum(1 for t in e["out"] if t[0] == "X") >= 2:
                    add("Stop_with_active_nested_machine")
                for t in e["out"]:
                    add("cb_" + t[0])
                    if t[0] == "H" and t[2] in replacing:
                        add("handler_registered_twice_later_one_ran")
                    if t[0] in "GH" and t[1] in rich0 and prevq and prevq[t[1] - 1][0] == 1 and prevq[t[1] - 1][2] == 0:
                        add("handler_or_guard_in_user_state_0")
                    if t[0] == "C" and t[1] in rich0 and t[2] == 0:
                        add("route_out_of_user_state_0")
                    if t[0] == "C" and t[4] == 0 and t[1] > 1:
                        add("nested_machine_terminated")
                    if t[0] == "E" and t[2] == 0:
                        add("user_terminal_state_entered")
                        if t[3] == 0 and t[1] in init0:
                            add("started_in_state_0_declared_first_without_setInitState")
                    if t[0] == "R":
                        add("reentrant_%s_rejected" % names[t[2]].lower())
                        if t[6] != t[1]:
                            add("reentrant_call_on_ancestor_rejected")
                if sum(q[0] for q in e["q"]) >= 3:
                    add("three_levels_active")
                prevq = e["q"]
    need = list(names.values()) + ["cb_" + k for k in "GHXAECR"] + ["nested_machine_terminated", "three_levels_active",
            "Stop_with_active_nested_machine", "reentrant_call_on_ancestor_rejected", "user_terminal_state_entered",
            "route_to_terminal_registered_before_user_terminal_state", "handler_registered_twice_later_one_ran",
            "handler_or_guard_in_user_state_0", "route_out_of_user_state_0",
            "started_in_state_0_declared_first_without_setInitState"] + ["reentrant_%s_rejected" % n.lower() for n in names.values()]
    missing = [k for k in need if cnt.get(k, 0) == 0]
    if missing:
        raise vlib.Infra("vacuity guard: never exercised in the validated traces: " + ", ".join(missing))
    for k, v in cnt.items():
        ctx.actions[k] = [v, v]


def gen_walks(ctx, cfg, num, depth):
    """TLC -simulate with a fixed -seed (Ctx.tlc_gen cannot pass one; local helper so that a run is reproducible for a
    fixed VERIF_SEED).  One worker: the walks then depend on the seed only."""
    d = os.path.join(vlib.SPEC, SPEC)
    cmd = vlib._tlc_cmd("Gen_Hfsm.tla", cfg, ctx.metadir(), 1,
                        ["-simulate", "num=%d" % num, "-depth", str(depth), "-seed", str(1000 + ctx.seed)], ("-Xmx3g",))
    t = time.time()
    rc, out = vlib.sh(cmd, timeout=1800, cwd=d)
    if rc != 0:
        raise vlib.Infra("TLC gen failed rc=%d Gen_Hfsm.tla/%s\n%s" % (rc, cfg, out[-3000:]))
    seen, res = set(), []
    for line in out.splitlines():
        line = line.strip()
        if not line.startswith('"BEH '):
            continue
        body = json.loads(line)[4:]
        if body not in seen:
            seen.add(body)
            res.append(json.loads(body))
    walks = join_gen(res)
    ctx.mc_runs.append({"model": "Gen_Hfsm.tla/%s" % cfg, "expect": "generate", "behaviours": len(walks),
                        "wall_s": round(time.time() - t, 1), "mode": "simulate"})
    ctx.log("GEN %-40s walks=%d %.1fs" % ("Gen_Hfsm.tla/" + cfg, len(walks), time.time() - t))
    if not walks:
        raise vlib.Infra("generator Gen_Hfsm.tla/%s produced no behaviours\n%s" % (cfg, out[-2000:]))
    return walks


def join_gen(items):
    tab = {x["tab"]: x["p"] for x in items if "tab" in x}
    return [{"p": tab[x["pi"]], "calls": x["calls"]} for x in items if "calls" in x]


def run(ctx):
    exe = vlib.build("c16_hfsm", SRC, ["c16_hfsm/driver.cpp"], flavour="asan", defines=vlib.BASE_DEFS)
    ctx.fault_observers = ["AddressSanitizer+UBSan on the harness build", "terminate/signal handlers (uncaught bad_function_call, "
                           "stack overflow by unbounded re-entrancy, TBOX_ASSERT) -> Fault event"]
    if ctx.replay_path:
        lines = [json.loads(x) for x in open(ctx.replay_path) if x.strip().startswith("{")]
        progs = [e["p"] for e in lines if e.get("e") == "Prog"]
        if not progs:
            raise vlib.Infra("replay file holds no Prog line: " + ctx.replay_path)
        calls = [e["c"] for e in lines if e.get("e") == "Begin"]     # includes a call that crashed before it was recorded
        validate(ctx, exe, [{"p": progs[0], "calls": calls}], "replay", "replay")
        return
    # 1. the design: reference semantics satisfies every clause on all programs of the families x all call sequences;
    #    each wrong variant violates its clause
    model_check(ctx)
    ctx.exhaustive = True
    binding(ctx, exe)


def binding(ctx, exe):
    rnd = random.Random(ctx.seed)
    # 2. spec -> code: TLC-enumerated programs and call sequences executed on the real class
    small = join_gen(ctx.tlc_gen(SPEC, "Gen_Hfsm.tla", "Gen_small.cfg", timeout=600))
    small.sort(key=lambda b: json.dumps(b, sort_keys=True))     # TLC's output order depends on worker scheduling
    total = len(small)
    if ctx.quick() and len(small) > 4000:
        small = rnd.sample(small, 4000)
    ctx.notes.append("Gen_small (family nestq, start + every 3 further calls): %d behaviours generated, %d executed" % (total, len(small)))
    ctx.sample({"kind": "TLC-enumerated program + call sequence executed on the real StateMachine", "calls": small[0]["calls"],
                "program": small[0]["p"]})
    validate(ctx, exe, small, "gen_small", "TLC-enumerated programs/call sequences", replays=True)
    sim = gen_walks(ctx, "Gen_sim.cfg", 120 if ctx.quick() else 1600, 30)[:600 if ctx.quick() else 8000]   # about 5 walks per num
    validate(ctx, exe, sim, "gen_sim", "TLC-simulated long call sequences (family simmix: nested, state 0 with routes, "
             "handlers registered twice)", replays=True)
    if not ctx.quick():
        big = gen_walks(ctx, "Gen_nest.cfg", 1600, 30)[:8000]
        validate(ctx, exe, big, "gen_nest", "TLC-simulated long call sequences (family nest)", replays=True)
    ren = gen_walks(ctx, "Gen_reent.cfg", 60 if ctx.quick() else 600, 14)[:300 if ctx.quick() else 3000]
    validate(ctx, exe, ren, "gen_reent", "TLC-simulated call sequences with re-entrant attempts (family reent)", replays=True)
    # 3. code -> spec: seeded random programs, deeper and larger than the families
    nprog, ncalls = (700, 36) if ctx.quick() else (8000, 60)
    execs = []
    for _ in range(nprog):
        p = gen_program(rnd)
        execs.append({"p": p, "calls": gen_calls(rnd, p["ne"], rnd.randint(ncalls // 2, ncalls))})
    ok, tr = validate(ctx, exe, execs, "random", "seeded random programs (1-4 nesting levels)")
    if ok:
        first = [json.loads(x) for x in vlib.read_lines(tr, 1, 5)]
        ctx.sample({"kind": "recorded trace of a random program (first lines)", "events": first})
        coverage_guard(ctx, [tr, ctx.tmp("gen_reent.ndjson"), ctx.tmp("gen_sim.ndjson")])
    ctx.assumptions = [
        "calls are made on the root machine from outside; from inside a callback on the callback's own machine, and on an "
        "ancestor only while that ancestor is inside its own run() activating the nested machine (calls on a parent that merely "
        "delegates an event - DESIGN section 5, decision 13 - are not generated)",
        "the machines are built by a seeded random legal order of the definition calls (p.defs); illegal orders (route to a "
        "missing non-terminal target, attachments to a missing state) are not generated",
        "programs are well formed: route/handler targets exist, one nested machine per state, a machine is nested at most once, "
        "a state 0 has no nested machine, events passed to run() are >= 1",
        "scripted guards/handlers are deterministic functions of their invocation count (cyclic scripts)"]
    ctx.uncovered = [
        "lastState() after stop()/before the first transition of a run, currentState() inside an exit action, and run()'s return "
        "value when the nested machine moved but the parent did not are left open (the statement does not fix them)",
        "Event::extra pass-through and toJson() are not compared"]
