# C18 - Coroutine primitives: FIFO delivery, mutual exclusion, no lost wake-ups.
#   model:   spec/Coroutine/Coroutine.tla (implementation-shaped: scheduler.cpp + the five primitive headers) whose ghost state
#            is the statement-level monitor spec/Coroutine/CoMonitor.tla; TLC enumerates ALL small programs (scripts of the
#            routines + script of the main context) as initial nondeterminism and checks the monitor's invariants
#            (ChannelFifoOnce, MutexExclusive, SemaphoreBound, NoLostWakeup, CancelTerminates, JoinReturns ...).
#            As-found configurations (wake-up discipline / cleanup loop of the code before the repairs) must violate.
#   binding: spec -> code: every program of the bounded models is executed by harness/c18_coroutine/driver.cpp on the real
#            Scheduler / Channel / Mutex / Semaphore / Broadcast / Condition on a real Loop; code -> spec: seeded random larger
#            programs (8 routines, 30 steps).  Every recorded trace is validated by TLC against Trace_Coroutine.tla (CoMonitor).
import concurrent.futures as cf
import glob
import json
import os
import random
import threading
import vlib

EVENT_SRC = ["event/loop.cpp", "event/common_loop.cpp", "event/common_loop_timer.cpp", "event/common_loop_signal.cpp",
             "event/common_loop_run.cpp", "event/timer_event_impl.cpp", "event/signal_event_impl.cpp", "event/misc.cpp",
             "event/stat.cpp", "event/engines/select/loop.cpp", "event/engines/select/fd_event.cpp",
             "event/engines/epoll/loop.cpp", "event/engines/epoll/fd_event.cpp"]
SRC = vlib.BASE_SRC + EVENT_SRC + ["coroutine/scheduler.cpp"]
DEFS = vlib.BASE_DEFS + ["HAVE_EPOLL=1", "HAVE_SELECT=1"]
SPEC = "Coroutine"
INV_ACTIONS = ["MCreate", "MResume", "MCancel", "MPass", "MCleanup", "MFinish", "SchedBegin", "SchedPop", "PassEnd", "CleanupRound",
               "CleanupNext", "REnd", "RCall", "RWait", "RYield", "RRecv", "RSend", "RLock", "RUnlock", "RAcq", "RRel", "RBWait", "RBPost",
               "RCAdd", "RCWait", "RCPost", "RJoin", "RCreate", "RCancel"]


def op(o, x=0, y=0):
    return {"op": o, "x": x, "y": y}


# ------------------------------------------------------------------------------------------------------------------
# running programs on the real code + validating the traces (chunks in parallel, one TLC per chunk)
# ------------------------------------------------------------------------------------------------------------------
def _clean_ttrace():
    for f in glob.glob(os.path.join(vlib.SPEC, SPEC, "*_TTrace_*")):
        try:
            os.remove(f)
        except OSError:
            pass


def run_programs(ctx, exe, progs, tag, chunk=None, cfg="Trace_Coroutine.cfg"):
    """Execute the programs on the real code, validate every trace. Returns True when all were accepted."""
    if not progs:
        return True
    lock = threading.Lock()
    orig_meta = ctx.metadir

    def locked_meta():
        with lock:
            return orig_meta()
    ctx.metadir = locked_meta
    if chunk is None:           # one chunk (= one TLC start) per worker, but not absurdly small or large
        chunk = min(4000, max(300, -(-len(progs) // max(1, vlib.NCPU))))
    chunks = [progs[i:i + chunk] for i in range(0, len(progs), chunk)]

    def one(i):
        sp = ctx.tmp("%s-%d.jsonl" % (tag, i))
        with open(sp, "w") as f:
            for p in chunks[i]:
                f.write(json.dumps(p) + "\n")
        tr = ctx.tmp("%s-%d.ndjson" % (tag, i))
        ok, n = vlib.record_and_validate(ctx, exe, ["run", sp, tr], tr, SPEC, "Trace_Coroutine.tla", cfg,
                                         "%s: %d programs on the real scheduler (chunk %d/%d)" % (tag, len(chunks[i]), i + 1, len(chunks)))
        return ok
    try:
        with cf.ThreadPoolExecutor(max_workers=max(1, vlib.NCPU)) as ex:
            res = list(ex.map(one, range(len(chunks))))
    finally:
        ctx.metadir = orig_meta
        _clean_ttrace()
    return all(res)


# ------------------------------------------------------------------------------------------------------------------
# parametric "crowd" programs: sizes that the exhaustive small programs cannot reach (not TLC-enumerated; executed on the
# real scheduler and validated by the same trace spec, the crowd ones with Trace_Coroutine_crowd.cfg: MaxR = 101)
# ------------------------------------------------------------------------------------------------------------------
def crowd_programs(sizes=(33, 40, 64, 100)):
    """N routines made ready in ONE scheduler pass: created at once / one broadcast post / N releases / N sends by one routine.
    The waiters are created in batches of 16 with a pass in between, so only the final step readies them all together."""
    progs = []
    for n in sizes:
        progs.append({"seminit": [0, 0], "clogic": [0, 0], "scripts": [[op("Yield")] for _ in range(n)],
                      "main": [op("Create", r, 1) for r in range(1, n + 1)]})
        for wait, post, cnt in (("BWait", "BPost", 1), ("Acq", "Rel", n), ("Recv", "Send", n)):
            main = []
            for r in range(1, n + 1):
                main.append(op("Create", r, 1))
                if r % 16 == 0:
                    main.append(op("Pass"))
            main += [op("Idle"), op("Create", n + 1, 1)]
            progs.append({"seminit": [0, 0], "clogic": [0, 0], "scripts": [[op(wait, 1)] for _ in range(n)] + [[op(post, 1)] * cnt],
                          "main": main})
    return progs


def backlog_programs(prefills=range(1, 16), bursts=(16, 17, 31, 32, 33, 64, 65)):
    """One channel, one receiver: p values sent and consumed, then a burst of b sends before the receiver runs again, then the
    receiver drains (FIFO, exactly once, exactly the sent values - whatever the channel's storage does when it grows)."""
    progs = []
    for p in prefills:
        for b in bursts:
            progs.append({"seminit": [0, 0], "clogic": [0, 0],
                          "scripts": [[op("Recv", 1)] * (p + b), [op("Send", 1)] * p + [op("Yield")] + [op("Send", 1)] * b],
                          "main": [op("Create", 1, 1), op("Create", 2, 1)]})
    return progs


# ------------------------------------------------------------------------------------------------------------------
# seeded random larger programs
# ------------------------------------------------------------------------------------------------------------------
def random_program(rnd, nr=8, steps=30):
    seminit = [rnd.choice([0, 0, 1, 2]), rnd.choice([0, 1])]
    clogic = [rnd.choice([0, 1]), rnd.choice([0, 1])]
    prof = rnd.choice(["mixed", "mixed", "chan", "mutex", "sem", "bcast", "cond", "life"])
    scripts = []
    for r in range(1, nr + 1):
        n = rnd.randint(0, steps)
        s = []
        while len(s) < n:
            k = rnd.random()
            p = rnd.randint(1, 2)
            if prof == "chan":
                c = rnd.choice(["Send", "Recv", "Recv", "Yield"])
                s.append(op(c, 0 if c == "Yield" else p))
            elif prof == "mutex":
                if k < 0.5:
                    s += [op("Lock", p)] + [op("Yield")] * rnd.randint(0, 2) + [op("Unlock", p)]
                else:
                    c = rnd.choice(["Lock", "Unlock", "Yield"])
                    s.append(op(c, 0 if c == "Yield" else p))
            elif prof == "sem":
                c = rnd.choice(["Acq", "Rel", "Rel", "Yield"])
                s.append(op(c, 0 if c == "Yield" else p))
            elif prof == "bcast":
                c = rnd.choice(["BWait", "BPost", "Yield", "Yield"])
                s.append(op(c, 0 if c == "Yield" else p))
            elif prof == "cond":
                c = rnd.choice(["CAdd", "CAdd", "CWait", "CPost", "CPost", "Yield"])
                s.append(op(c, 0 if c == "Yield" else p, rnd.randint(1, 2) if c in ("CAdd", "CPost") else 0))
            elif prof == "life":
                c = rnd.choice(["Yield", "Wait", "Join", "Create", "Cancel", "Send", "Recv"])
                s.append(op(c, rnd.randint(1, nr) if c in ("Join", "Create", "Cancel") else (p if c in ("Send", "Recv") else 0)))
            else:
                c = rnd.choice(["Yield", "Yield", "Send", "Recv", "Lock", "Unlock", "Acq", "Rel", "BWait", "BPost", "CAdd", "CWait",
                                "CPost", "Join", "Create", "Cancel", "Wait"])
                if c in ("Join", "Create", "Cancel"):
                    s.append(op(c, rnd.randint(1, nr)))
                elif c in ("CAdd", "CPost"):
                    s.append(op(c, p, rnd.randint(1, 2)))
                elif c in ("Yield", "Wait"):
                    s.append(op(c))
                else:
                    s.append(op(c, p))
        scripts.append(s[:steps])
    ninit = rnd.randint(2, nr)
    main = [op("Create", r, 1 if rnd.random() < 0.8 else 0) for r in range(1, ninit + 1)]
    rnd.shuffle(main)
    cleaned = False
    for _ in range(rnd.randint(0, 10)):
        c = rnd.choice(["Pass", "Pass", "Idle", "Resume", "Resume", "Cancel", "Create", "Cleanup"] if not cleaned else ["Pass", "Idle"])
        if c == "Cleanup":
            if rnd.random() < 0.3:
                cleaned = True
                main.append(op("Cleanup"))
        elif c in ("Resume", "Cancel"):
            main.append(op(c, rnd.randint(1, nr)))
        elif c == "Create":
            main.append(op(c, rnd.randint(1, nr), rnd.randint(0, 1)))
        else:
            main.append(op(c))
    return {"seminit": seminit, "clogic": clogic, "scripts": scripts, "main": main}


# ------------------------------------------------------------------------------------------------------------------
INVS = "TypeOK MTypeOK ChannelFifoOnce MutexExclusive SemaphoreBound FailureOnlyWhenCancelled CancelFails JoinReturnsOk " \
       "NoLostWakeup ReadyRan CancelTerminates IdleObservation CleanupReturns AllTerminated"


def write_cfg(name, programs, seminit="Zeros", clogic="Zeros", asfound_wake=False, asfound_cleanup=False, emit=True, maxr=3):
    """Configurations are generated (one place to see every bounded scope); they live next to the specs."""
    path = os.path.join(vlib.SPEC, SPEC, name)
    body = ["\\* generated by checks/c18.py", "CONSTANTS", "  MaxR = %d" % maxr, "  NP = 1", "  SemInit <- %s" % seminit,
            "  CondLogic <- %s" % clogic, "  AsFoundWake = %s" % ("TRUE" if asfound_wake else "FALSE"),
            "  AsFoundCleanup = %s" % ("TRUE" if asfound_cleanup else "FALSE"), "  Which = \"%s\"" % programs, "  Programs <- ProgSel",
            "SPECIFICATION Spec", "INVARIANTS " + INVS]
    if emit:
        body += ["CONSTRAINT EmitProg"]
    with open(path, "w") as f:
        f.write("\n".join(body) + "\n")
    return name


def parse_programs(out):
    seen, res = set(), []
    for line in out.splitlines():
        line = line.strip()
        if not line.startswith('"BEH '):
            continue
        body = json.loads(line)[4:]
        if body not in seen:
            seen.add(body)
            res.append(json.loads(body))
    return res


# (cfg name, program sequence of MC_Coroutine.tla, SemInit, CondLogic)
#  ProgStale: four routines - three waiters on ONE semaphore / channel / mutex, every placement of a cancelled or foreign-resumed
#  waiter (oldest, middle, newest) x 0..3 wake-ups afterwards (a registration left behind swallows a later wake-up)
QUICK = [("MC_quick.cfg", "ProgQuick", "Zeros", "Zeros"), ("MC_quick2.cfg", "ProgQuick2", "Ones", "Ones"),
         ("MC_stale.cfg", "ProgStale", "Zeros", "Zeros")]
MAXR = {"ProgStale": 4}
THOROUGH = [("MC_t%d.cfg" % i, "ProgT%d" % i, "Ones" if i == 9 else "Zeros", "Ones" if i == 9 else "Zeros") for i in range(1, 10)]
# as-found configurations: the model of the code BEFORE the repairs must violate the property (non-vacuity)
ASFOUND_QUICK = [("MC_asfound_wake.cfg", "ProgAsFoundWake", dict(asfound_wake=True), "NoLostWakeup"),
                 ("MC_asfound_cleanup.cfg", "ProgAsFoundCleanup", dict(asfound_cleanup=True), "CleanupReturns")]
ASFOUND_THOROUGH = [("MC_asfound_chan.cfg", "ProgAsFoundChan", dict(asfound_wake=True), "NoLostWakeup"),
                    ("MC_asfound_sem.cfg", "ProgAsFoundSem", dict(asfound_wake=True), "NoLostWakeup"),
                    ("MC_asfound_mutex.cfg", "ProgRelock", dict(asfound_wake=True), "NoLostWakeup")]


def run(ctx):
    exe = vlib.build("c18_coroutine", SRC, ["c18_coroutine/driver.cpp"], flavour="plain", defines=DEFS)
    ctx.fault_observers = ["terminate/signal handlers", "CPU-time watchdog (5 s of user CPU per program): a scheduler that never goes idle "
                           "or a cleanup() that never returns becomes a Fault event"]
    if ctx.replay_path:
        # a replay file is the rejected execution: its Begin line carries the program
        lines = [json.loads(x) for x in open(ctx.replay_path) if x.strip().startswith("{")]
        progs = [e["prog"] for e in lines if e.get("e") == "Begin" and "prog" in e] + [e for e in lines if "scripts" in e]
        if progs:
            run_programs(ctx, exe, progs, "replay")
            return
        # otherwise the file is a counterexample of a bounded model: re-run the models of the quick tier
        try:
            for name, programs, kw, inv in ASFOUND_QUICK:
                ctx.tlc_mc(SPEC, "MC_Coroutine.tla", write_cfg(name, programs, emit=False, **kw), expect=inv, coverage=False, timeout=600)
            for name, programs, seminit, clogic in QUICK:
                ctx.tlc_mc(SPEC, "MC_Coroutine.tla", write_cfg(name, programs, seminit, clogic, emit=False, maxr=MAXR.get(programs, 3)), coverage=False, timeout=3000)
        finally:
            _clean_ttrace()
        return
    fams = QUICK if ctx.quick() else QUICK + THOROUGH
    asfound = ASFOUND_QUICK if ctx.quick() else ASFOUND_QUICK + ASFOUND_THOROUGH
    try:
        # 1. the design: as-found wake-up discipline / cleanup loop violate the property on the model ...
        for name, programs, kw, inv in asfound:
            ctx.tlc_mc(SPEC, "MC_Coroutine.tla", write_cfg(name, programs, emit=False, **kw), expect=inv, coverage=False, timeout=600)
        # ... and the intended one satisfies it for EVERY program of the bounded families (exhaustive); the same run prints
        # the programs, which are then executed on the real code
        nprog = 0
        for i, (name, programs, seminit, clogic) in enumerate(fams):
            r, out = ctx.tlc_mc(SPEC, "MC_Coroutine.tla", write_cfg(name, programs, seminit, clogic, maxr=MAXR.get(programs, 3)), coverage=(i == 0),
                                required_actions=INV_ACTIONS if i == 0 else (), timeout=3000)
            progs = parse_programs(out)
            del out
            if not progs:
                raise vlib.Infra("no programs printed by " + name)
            ctx.notes.append("%s: %d programs, all executed on the real code" % (programs, len(progs)))
            if i == 0:
                ctx.sample({"kind": "program of the bounded model executed on the real scheduler", "program": progs[len(progs) // 2]})
            # 2. spec -> code: every program of the family on the real Scheduler / primitives
            if run_programs(ctx, exe, progs, programs):
                ctx.replays_ok += len(progs)
                ctx.traces_ok -= len(progs)
            nprog += len(progs)
        ctx.exhaustive = True
        # 2b. sizes beyond the exhaustive scopes: crowds of 33..100 routines readied in one pass, channel backlogs of 16..65 values
        cp, bp = crowd_programs(), backlog_programs()
        ctx.notes.append("crowd: %d programs (33/40/64/100 routines readied in one pass), backlog: %d programs (prefill 1..15 x burst "
                         "16..65 on one channel); parametric, not TLC-enumerated" % (len(cp), len(bp)))
        run_programs(ctx, exe, cp, "crowd", chunk=max(1, -(-len(cp) // max(1, vlib.NCPU))), cfg="Trace_Coroutine_crowd.cfg")
        run_programs(ctx, exe, bp, "backlog", chunk=max(10, -(-len(bp) // max(1, vlib.NCPU))))
        # 3. code -> spec: seeded random larger programs
        rnd = random.Random(ctx.seed * 7919 + 18)
        n = 1500 if ctx.quick() else 40000
        rp = [random_program(rnd) for _ in range(n)]
        ctx.sample({"kind": "random program (8 routines, <= 30 steps)", "program": rp[0]})
        run_programs(ctx, exe, rp, "random", chunk=min(1000, max(100, -(-n // max(1, vlib.NCPU)))))
    finally:
        _clean_ttrace()
    ctx.assumptions = [
        "main-context actions happen between loop passes (in-loop driver task that runs last in every pass, after every schedule() call queued so far); nothing is created or "
        "resumed after cleanup()",
        "idle = two consecutive loop passes in which no routine ran and the main context did nothing",
        "values sent are unique per program (routine*100 + step), so duplication / reordering is visible",
        "a routine that the MAIN context resumed while it was inside a blocking call other than wait() is 'tainted': the success of its "
        "later join() is not judged (Scheduler::join / Broadcast::wait / Condition::wait document no re-check after a spurious resume)",
    ]
    ctx.uncovered = [
        "spurious success of Broadcast::wait()/Condition::wait() without a post is not judged (the statement only demands that posted "
        "waiters are resumed)",
        "programs that use the scheduler again after cleanup() (cabinet ids restart, see C08)",
        "stack overflow of a routine (8 KiB default stack) - routines run with 64 KiB here",
    ]
