# C09 - Logging delivers each record once, whole and in order, to each enabled sink.
#   model:   spec/Log/Log.tla - threads format (two-pass formatter vs. the exact truncation rule), take the global dispatch lock,
#            hand the record to a synchronous sink and, as header + text appends, to the pipes of an asynchronous sink and of the
#            file sink; back ends re-frame; the file sink writes batches of whole records and rolls over after a batch.
#            Invariants: frames whole, per-thread order, exactly once per passing sink, truncation exact, rollover keeps records
#            whole; liveness: quiescence.  Switch NoDispatchLock must violate FramesWhole.
#   binding: code -> spec trace validation (spec/Log/Trace_Log.tla over LogData.tla): K threads log numbered records with chosen
#            levels / modules / lengths (0, around the 2 KiB stack buffer, around the configured maximum, a module name longer than
#            the sink's scratch buffer) into three real sinks - a Sink subclass, an AsyncSink subclass with pipe buffers from 1 byte,
#            the real AsyncFileSink with size limits from 1 byte (files read back after disable()); thresholds, maximum length and
#            enable/disable change at quiescent points. Every record found in a sink must be the next passing call of its thread
#            with every field intact; after disable() nothing may be missing. TSan + ASan builds, delays inside the pipe appends.
import json
import os
import vlib

SRC = vlib.BASE_SRC + ["log/sink.cpp", "log/async_sink.cpp", "log/async_file_sink.cpp", "util/async_pipe.cpp", "util/buffer.cpp",
                       "util/fs.cpp", "util/string.cpp"]


def validate(ctx, exe, args, trace, what):
    return vlib.record_and_validate(ctx, exe, args, trace, "Log", "Trace_Log.tla", "Trace_Log.cfg", what, timeout=400 if ctx.quick() else 3000)


def run(ctx):
    asan = vlib.build("c09_log", SRC, ["c09_log/driver.cpp"], flavour="asan", defines=vlib.BASE_DEFS)
    tsan = vlib.build("c09_log", SRC, ["c09_log/driver.cpp"], flavour="tsan", defines=vlib.BASE_DEFS)
    ctx.fault_observers = ["ThreadSanitizer on the recording harness (data races)", "ASan+UBSan build (over-reads of the formatting buffers)",
                           "watchdog on disable()"]
    if ctx.replay_path:
        tr = ctx.tmp("replay.ndjson")
        open(tr, "w").write(open(ctx.replay_path).read())
        ok, info = ctx.tlc_trace("Log", "Trace_Log.tla", "Trace_Log.cfg", tr, 1, what="replay of recorded events")
        if not ok:
            ctx.violation("recorded execution is rejected by the specification", ctx.replay_path)
        return
    acts = ["Format", "Acquire", "ToSync", "ToAsyncH", "ToAsyncT", "ToFileH", "ToFileT", "Release", "BackA", "BackF", "Quiesce"]
    ctx.tlc_mc("Log", "MC_Log.tla", "MC_s1.cfg", required_actions=acts)
    ctx.tlc_mc("Log", "MC_Log.tla", "MC_s1_big.cfg", coverage=False)
    ctx.tlc_mc("Log", "MC_Log.tla", "MC_s2.cfg", coverage=False)
    ctx.tlc_mc("Log", "MC_Log.tla", "MC_s1_live.cfg", coverage=False)
    ctx.tlc_mc("Log", "MC_Log.tla", "MC_nolock.cfg", expect="FramesWhole", coverage=False)
    n_tsan, n_asan = (25, 15) if ctx.quick() else (600, 300)
    d = ctx.tmp("logdir_tsan"); os.makedirs(d, exist_ok=True)
    tr = ctx.tmp("random_tsan.ndjson")
    validate(ctx, tsan, ["random", ctx.seed, n_tsan, d, tr], tr, "random logging phases (TSan build)")
    ctx.sample({"kind": "recorded events", "events": [json.loads(x) for x in vlib.read_lines(tr, 1, 10)]})
    d = ctx.tmp("logdir_asan"); os.makedirs(d, exist_ok=True)
    tr = ctx.tmp("random_asan.ndjson")
    validate(ctx, asan, ["random", ctx.seed + 7919, n_asan, d, tr], tr, "random logging phases (ASan build)")
    ctx.assumptions = ["thresholds, maximum length and enable/disable change only while no thread is logging (the setters are documented "
                       "single-threaded)", "levels IMPORTANT and INFO print the same level letter: formatted sinks are compared by letter",
                       "record time is checked for plausibility (microseconds < 10^6, seconds within the run), not for equality",
                       "texts contain no blanks (the formatted line is split on blanks to read the fields back)"]
    ctx.uncovered = ["AsyncStdoutSink / SyncStdoutSink / AsyncSyslogSink output is not captured (they share Sink / AsyncSink, which are)",
                     "colour escape sequences (enableColor) are not exercised"]
