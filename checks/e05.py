# E05 (extension) - command-line splitting and option parsing: tbox::util::SplitCmdline, string::StripQuot, ArgumentParser.
#   model:   spec/Cmdline/Cmdline.tla     reference operators Split / StripQuot / Parse (documented quoting and option rules)
#            spec/Cmdline/LawsE05.tla     laws over every string of a hostile 8-character alphabet (failure <=> unfinished quote,
#                                         arguments are ordered pieces of the input, re-quoting round trip, concatenation, option order,
#                                         handler return value, fetched values are not options, --key="a b" pipeline)
#            spec/Cmdline/SplitImpl.tla   implementation-shaped model of the find_first_of chain (at()/substr() indices in range,
#                                         termination, result = Split); two seeded variants must violate ResultConforms
#   binding: spec -> code: every case of the bounded domains (Gen_Cmdline);  code -> spec: seeded random lines / argument lists /
#            handler decision scripts.  Every recorded call is validated by TLC against spec/Cmdline/Trace_Cmdline.tla.
import json
import vlib
import e0506_common as ec

SRC = vlib.BASE_SRC + ["util/split_cmdline.cpp", "util/argument_parser.cpp", "util/string.cpp"]
SPEC = "Cmdline"


def validate(ctx, exe, args, trace, what, count_as="trace"):
    return ec.run_and_validate(ctx, SPEC, "Trace_Cmdline.tla", "Trace_Cmdline.cfg", exe, args, trace, what, count_as=count_as)


def run(ctx):
    try:
        _run(ctx)
    finally:
        ec.cleanup_ttrace(SPEC)


def _run(ctx):
    exe = vlib.build("e05_cmdline", SRC, ["e05_cmdline/driver.cpp"], flavour="asan", defines=vlib.BASE_DEFS,
                     extra_flags=["-D_GLIBCXX_ASSERTIONS"])
    ctx.fault_observers = ["AddressSanitizer + UBSan (heap std::string / exactly sized argv array and C strings)",
                           "_GLIBCXX_ASSERTIONS (front()/back()/operator[] outside a std::string abort instead of being tolerated)",
                           "terminate/signal handlers; a call that does not return leaves its Call line + Fault in the trace"]
    quick = ctx.quick()
    if ctx.replay_path:
        sp = ctx.tmp("replay.jsonl")
        ec.write_script(sp, ec.replay_cases(ctx.replay_path), batch=10 ** 9)
        validate(ctx, exe, ["script", sp, "@OUT"], ctx.tmp("replay.ndjson"), "replay", count_as="replay")
        return

    # 1. the design ---------------------------------------------------------------------------------------------------------
    ctx.tlc_mc(SPEC, "LawsE05.tla", "MC_LawsE05_quick.cfg" if quick else "MC_LawsE05.cfg", jvm=ec.JVM, timeout=1500,
               required_actions=["PickCmd", "PickPair", "PickArgs", "PickStrip", "PickParse", "PickPipe"])
    ctx.tlc_mc(SPEC, "SplitImpl.tla", "MC_SplitImpl.cfg" if quick else "MC_SplitImpl_thorough.cfg", jvm=ec.JVM, timeout=1500,
               required_actions=["Call", "Top", "BareQuote", "BareEnd"])
    for cfg in ("MC_SplitImpl_noloop.cfg", "MC_SplitImpl_anyquote.cfg"):            # seeded variants: non-vacuity of ResultConforms
        ctx.tlc_mc(SPEC, "SplitImpl.tla", cfg, expect="ResultConforms", jvm=ec.JVM, coverage=False)
    ec.cleanup_ttrace(SPEC)

    # 2. spec -> code: every case of the bounded domains on the real functions -------------------------------------------------
    cases = [b[0] for b in ctx.tlc_gen(SPEC, "Gen_Cmdline.tla", "Gen_Cmdline.cfg" if quick else "Gen_Cmdline_thorough.cfg", jvm=ec.JVM)]
    cases.sort(key=lambda c: json.dumps(c, sort_keys=True))
    ctx.exhaustive = True
    kinds = {}
    for c in cases:
        kinds[c["e"]] = kinds.get(c["e"], 0) + 1
    ctx.notes.append("Gen_Cmdline: %d cases %s (all command lines of the bounded alphabet, all argument lists of <= 3 tokens x "
                     "start x handler decision patterns), 50 calls per execution" % (len(cases), kinds))
    ctx.sample({"kind": "model case executed on the real function", "call": next(c for c in cases if c["e"] == "Parse" and c["args"][:2] == [[45, 97, 98], [98]] and len(c["args"]) == 3 and len(c["dec"]) == 4)})
    sp = ctx.tmp("gen_cases.jsonl")
    ec.write_script(sp, cases)
    ok, lines = validate(ctx, exe, ["script", sp, "@OUT"], ctx.tmp("gen_cases.ndjson"), "%d model cases" % len(cases), count_as="replay")
    if ok:
        ev = next((json.loads(x) for x in lines if x.startswith('{"e":"Split"') and '"ret":true' in x and x.count("],[") >= 1), None)
        if ev:
            ctx.sample({"kind": "recorded SplitCmdline call (validated by TLC)", "event": ev})

    # 3. code -> spec: seeded random calls -------------------------------------------------------------------------------------
    n_exec = 250 if quick else 4000
    ok, lines = validate(ctx, exe, ["random", ctx.seed, n_exec, "@OUT"], ctx.tmp("random.ndjson"), "random calls")
    if ok:
        ev = next((json.loads(x) for x in lines if x.startswith('{"e":"Parse"') and '"valid":true' in x and '"ret":false' in x), None)
        if ev:
            ctx.sample({"kind": "recorded ArgumentParser::parse call (validated by TLC)", "event": ev})
        ev = next((json.loads(x) for x in lines if x.startswith('{"e":"Split"') and '"ret":false' in x), None)
        if ev:
            ctx.sample({"kind": "recorded failing SplitCmdline call (validated by TLC)", "event": ev})
        ctx.notes.append("random: %d recorded calls" % sum(1 for x in lines if not x.startswith('{"e":"Reset"')))

    ctx.assumptions = [
        "the documented behaviour is the one pinned by split_cmdline_test.cpp / argument_parser_test.cpp: an argument that starts "
        "with a quote loses its quotes and ends at the closing quote; a bare word keeps its quoted sections verbatim (with quotes)",
        "after SplitCmdline returned false the contents of the argument vector are not compared",
        "StripQuot of a lone quote character: both the character itself (current code) and the empty string (code before the repair "
        "of the empty-string defect) are accepted",
        "preconditions asserted by the code are respected: parse(argc, argv, start) with argc >= 1, non-null argv entries, start >= 0; "
        "arguments contain no NUL character",
        "the handler is a deterministic script of (fetch the value?, return value) per invocation",
    ]
    ctx.uncovered = [
        "command lines longer than 60 characters and alphabets beyond the ten characters used by the random generator are not exercised",
        "reads inside a std::string's own small-string buffer beyond size() through raw pointers would not be seen by ASan "
        "(index-based accesses are covered by _GLIBCXX_ASSERTIONS)",
        "OptionValue is observed through a copy (valid(), get()); its private used flag only through the parser's skipping behaviour",
    ]
