# E04 - tbox::flow::ActionExecutor: prioritised queues of actions (append / cancel / cancelCurrent / cancelAll, preemption by a
#       higher priority, resumption, finish notifications through the loop, started / finished / all-finished callbacks).
#   model:   spec/ActionExecutor/ActionExecutor.tla (implementation-shaped: three queues of action ids, per-action state, the
#            current-queue index, the loop's pending finish notifications; schedule() as a recursive operator; 14 invariants)
#            -- TLC exhaustive; two as-found switches must violate.
#   binding: spec -> code: every sequence of 4 calls of the model (all of 5 calls in the thorough tier, a seeded sample in the quick
#            tier) is executed by harness/e04_actionexecutor/driver.cpp on the real ActionExecutor with probe actions inside a real
#            event loop driven pass by pass; code -> spec: seeded random histories of 40 calls.  Every recorded trace (call, probe
#            hooks and executor callbacks in order, return value, current(), live actions with their states) is validated by TLC
#            against spec/ActionExecutor/Trace_ActionExecutor.tla.
import json
import random
import vlib

SRC = vlib.BASE_SRC + vlib.EVENT_SRC + ["flow/action.cpp", "flow/action_executor.cpp", "util/variables.cpp", "util/string.cpp", "util/json.cpp"]
ACTIONS = ["AppendOp", "FinishOp", "PassOp", "CancelCurrentOp", "CancelOp", "CancelAllOp", "DestroyOp"]
MAXLINES = 45000
OPS = ("append", "finish", "pass", "cancel", "cancelCurrent", "cancelAll")


def to_script(hist):
    ops = []
    for h in hist:
        o = {"o": h["o"]}
        if h["o"] == "append":
            o["p"], o["k"] = h["p"], h["k"]
        elif h["o"] in ("finish", "cancel"):
            o["a"] = h["a"]
        ops.append(o)
    return {"ops": ops}


def validate(ctx, exe, args, trace, what, cfg="Trace_ActionExecutor.cfg"):
    return vlib.record_and_validate(ctx, exe, args, trace, "ActionExecutor", "Trace_ActionExecutor.tla", cfg, what)


def run_scripts(ctx, exe, scripts, tag):
    chunks, cur, n = [], [], 0
    for s in scripts:
        w = 4 * len(s["ops"]) + 4            # estimate of its trace lines (call + events + ret per op, destroy, Reset)
        if cur and n + w > MAXLINES:
            chunks.append(cur)
            cur, n = [], 0
        cur.append(s)
        n += w
    if cur:
        chunks.append(cur)
    for k, ch in enumerate(chunks):
        sp = ctx.tmp("%s_%d.jsonl" % (tag, k))
        with open(sp, "w") as f:
            for s in ch:
                f.write(json.dumps(s) + "\n")
        tr = ctx.tmp("%s_%d.ndjson" % (tag, k))
        good, n = validate(ctx, exe, ["script", sp, tr], tr, "replay of %d model behaviours (%s #%d)" % (len(ch), tag, k), cfg="Trace_small.cfg")
        if not good:
            return False
        ctx.traces_ok -= n
        ctx.replays_ok += n
    return True


def unique_scripts(behs):
    seen, res = set(), []
    for b in behs:
        s = to_script(b)
        key = json.dumps(s, sort_keys=True)
        if key not in seen:
            seen.add(key)
            res.append((key, s))
    res.sort(key=lambda x: x[0])
    return [s for _, s in res]


def run(ctx):
    exe = vlib.build("e04_actionexecutor", SRC, ["e04_actionexecutor/driver.cpp"], flavour="asan", defines=vlib.BASE_DEFS + vlib.EVENT_DEFS)
    ctx.fault_observers = ["AddressSanitizer+UBSan on the harness build (the executor owns and destroys the probe actions: any use of a "
                           "cancelled / finished action is a heap-use-after-free)", "TBOX_ASSERT active (abort)", "terminate/signal handlers"]
    if ctx.replay_path:
        ev = [json.loads(x) for x in open(ctx.replay_path) if x.strip().startswith("{")]
        ops = []
        for e in ev:
            if e["e"] in OPS:
                ops.append({"o": e["e"], "p": e.get("p", 1), "k": e.get("k", "normal"), "a": e.get("a", 0)})
        run_scripts(ctx, exe, [{"ops": ops}], "replay")
        return
    # 1. the design
    ctx.tlc_mc("ActionExecutor", "MC_ActionExecutor.tla", "MC_cov.cfg", required_actions=ACTIONS)
    ctx.tlc_mc("ActionExecutor", "MC_ActionExecutor.tla", "MC_quick.cfg" if ctx.quick() else "MC_thorough.cfg", coverage=False, timeout=3000)
    for cfg, inv in (("MC_asfound_cur.cfg", "CurConsistent"), ("MC_asfound_cur_ub.cfg", "NoUB"), ("MC_asfound_cancelall.cfg", "NoIdleWithWork")):
        ctx.tlc_mc("ActionExecutor", "MC_ActionExecutor.tla", cfg, expect=inv, coverage=False)
    # 2. spec -> code
    rnd = random.Random(ctx.seed)
    s4 = unique_scripts(ctx.tlc_gen("ActionExecutor", "Gen_ActionExecutor.tla", "Gen_d4.cfg"))
    ctx.exhaustive = True
    ctx.sample({"kind": "model behaviour (4 calls) replayed on the real ActionExecutor", "script": s4[len(s4) // 3]})
    if not run_scripts(ctx, exe, s4, "gen4"):
        return
    if ctx.quick():         # a seeded sample of the 5-call sequences: random walks of the generator (one worker: reproducible)
        s5 = unique_scripts(ctx.tlc_gen("ActionExecutor", "Gen_ActionExecutor.tla", "Gen_d5.cfg", simulate=(700, 8), workers=1, timeout=120, limit=3000))
        ctx.notes.append("call sequences of length 4: %d (all executed); of length 5: %d sampled by seeded random walks" % (len(s4), len(s5)))
    else:
        s5 = unique_scripts(ctx.tlc_gen("ActionExecutor", "Gen_ActionExecutor.tla", "Gen_d5.cfg"))
        ctx.notes.append("call sequences of length 4: %d, of length 5: %d (all executed)" % (len(s4), len(s5)))
    pre = [s for s in s5 if [o["o"] for o in s["ops"]].count("append") >= 2 and any(o["o"] == "finish" for o in s["ops"])]
    ctx.sample({"kind": "model behaviour (5 calls) replayed on the real ActionExecutor", "script": (pre or s5)[0]})
    if not run_scripts(ctx, exe, s5, "gen5"):
        return
    # 3. code -> spec: seeded random histories
    nexec, nops = (1000, 40) if ctx.quick() else (8000, 40)
    per = MAXLINES // (nops * 4)
    done, k = 0, 0
    while done < nexec:
        n = min(per, nexec - done)
        tr = ctx.tmp("random_%d.ndjson" % k)
        good, _ = validate(ctx, exe, ["random", ctx.seed * 1000 + k, n, nops, tr], tr, "random histories #%d" % k)
        if not good:
            return
        if k == 0:
            ctx.sample({"kind": "recorded trace (first events)", "events": [json.loads(x) for x in vlib.read_lines(tr, 1, 16)]})
        done += n
        k += 1
    ctx.assumptions = ["probe actions: Action subclass that finishes when told (or inside onStart); only finish(true) - the executor ignores "
                       "the result", "calls are made from loop tasks, never from inside the executor's callbacks (TBOX_ASSERT(cb_level_ == 0) forbids it)",
                       "open in the reference: cancel(id) of an under-way action may stop() it before destroying it; cancelAll() may or may not "
                       "report AllFinished"]
    ctx.uncovered = ["Action::block() inside an executor (the header says it is not supported)", "actions appended in a state other than idle",
                     "vars() parent link of appended actions"]
