# C04 - Signal events reach every subscriber; old disposition is restored.
#   model:   spec/Signals/Signals.tla - process-wide signal table, kernel disposition (handler, flags, mask), per-loop
#            subscriber tables and pipes, handler activation step by step; TLC exhaustive over 32 event configurations
#            (2 loops, 2 signals, 3 events: one multi-signal, one one-shot) x kinds of the pre-existing disposition,
#            unbounded number of deliveries (finite state space); seeded-defect configurations must violate.
#   binding: spec -> code: every depth-4 (thorough: depth-6) script of the sequential model (Gen_Signals) and seeded random long histories
#            (2-8 loops, 3 signals, <= 10 events, re-creation, redundant calls) are executed on real loops/threads/signals
#            by harness/c04_signals/driver.cpp (delivery via kill / raise on a loop thread / pthread_kill into a polling
#            loop / handler paused after every pipe write); code -> spec: every recorded line (callbacks per loop thread,
#            calls of the pre-existing handler, sigaction compared field by field, isEnabled) is validated by TLC
#            against spec/Signals/Trace_Signals.tla.
import concurrent.futures as cf
import glob
import json
import os
import random
import vlib

EV = ["event/loop.cpp", "event/common_loop.cpp", "event/common_loop_timer.cpp", "event/common_loop_signal.cpp",
      "event/common_loop_run.cpp", "event/timer_event_impl.cpp", "event/signal_event_impl.cpp", "event/misc.cpp", "event/stat.cpp",
      "event/engines/epoll/loop.cpp", "event/engines/epoll/fd_event.cpp", "event/engines/select/loop.cpp",
      "event/engines/select/fd_event.cpp"]
SRC = vlib.BASE_SRC + EV
DEFS = vlib.BASE_DEFS + ["HAVE_EPOLL=1", "HAVE_SELECT=1"]
ACTIONS = ["OpBegin", "OpStep", "OpEnd", "RaiseBegin", "HandlerOld", "HandlerWrite", "HandlerReturn", "LoopRead"]
INVS_OF_BUG = [("norestore", "DispositionRestored"), ("handleronly", "DispositionRestored"), ("skipold", "OldHandlerChained"),
               ("skipplain", "OldHandlerChained"), ("firstonly", "EveryEnabledGetsOne"), ("oneshotstays", "OneShotAtMostOnce"),
               ("keepfd", "CtxConsistent"), ("perloop", "CtxConsistent"), ("liveiter", "EveryEnabledGetsOne"),
               ("cap1", "EveryEnabledGetsOne"), ("laterestore", "CtxConsistent")]
QUICK_BUGS = ("norestore", "skipold", "firstonly", "oneshotstays", "liveiter", "cap1", "laterestore")
KINDS = ["info", "plain", "ign", "dfl", "inforh", "plainrh"]     # rh: installed with SA_RESETHAND (+ other flags, masks)
NORAISE = ("dfl", "inforh", "plainrh")                            # never raised while nobody is subscribed
VIAS = ["main", "self", "async", "step"]
ENGINES = ["epoll", "select"]


def decorate(rnd, n, ev, ops):
    """Turn a model behaviour (event configuration + op list) into a driver script: the delivery path of every raise,
    the poll engine of every loop and the kind of the pre-existing disposition of every signal are free parameters."""
    out = []
    for o in ops:
        if o["o"] == "raise":
            via = rnd.choice(VIAS)
            out.append({"o": "raise", "a": o["a"], "via": via, "t": rnd.randint(1, n) if via in ("self", "async") else 0})
        elif o["o"] == "batch":
            out.append({"o": "batch", "a": o["a"], "ops": [{"o": x["o"], "a": x["a"]} for x in o["ops"]]})
        elif o["o"] == "burst":
            out.append({"o": "burst", "a": o["a"], "n": o["n"]})
        elif o["o"] == "race":
            out.append({"o": "race", "a": 0, "ops": [{"o": x["o"], "a": x["a"]} for x in o["ops"]],
                        "da": o.get("da", rnd.randrange(8)), "db": o.get("db", rnd.randrange(256))})
        else:
            out.append({"o": o["o"], "a": o["a"]})
    ev = [dict(e, prog=[{"o": x["o"], "a": x["a"]} for x in e.get("prog", [])]) for e in ev]
    return {"n": n, "eng": [rnd.choice(ENGINES) for _ in range(n)], "kind": [rnd.choice(KINDS) for _ in range(3)],
            "ev": ev, "ops": out}


def random_cb_script(rnd, nops):
    """Histories with callbacks that change subscriptions (enable/disable/destroy of events of the same loop from inside the
    callback), several subscription calls in one task (batch) and loops that are held busy while signals are raised, so
    that they read a batch of numbers.  Every loop has an anchor event (persistent, no program, never touched by a
    program); a loop is held only while its anchor is enabled and nothing is done to its events meanwhile, so its pipe is
    never closed while numbers are pending (what happens to those is not specified).  The python mirror below only steers
    the choice of the next step; inapplicable steps are skipped by the driver."""
    n = rnd.choice([1, 2, 2, 3])
    ev = [{"L": L, "sigs": [s for s in (1, 2, 3) if rnd.random() < 0.4] or [rnd.randint(1, 3)], "os": False, "prog": []}
          for L in range(1, n + 1)]
    anchors = set(range(n))
    for _ in range(rnd.randint(2, 6)):
        ev.append({"L": rnd.randint(1, n), "sigs": [s for s in (1, 2, 3) if rnd.random() < 0.45] or [rnd.randint(1, 3)],
                   "os": rnd.random() < 0.3, "prog": []})
    nev = len(ev)
    for i in range(n, nev):
        if rnd.random() < 0.6:
            mates = [j for j in range(n, nev) if ev[j]["L"] == ev[i]["L"]]
            for _ in range(rnd.randint(1, 3)):
                j = rnd.choice(mates)
                o = rnd.choice(["enable", "disable", "disable"])
                if j != i and not set(ev[j]["sigs"]) & set(ev[i]["sigs"]) and rnd.random() < 0.3:
                    o = "destroy"                           # never an event that may be in the set being served
                ev[i]["prog"].append({"o": o, "a": j + 1})
    kind = [rnd.choice(["info", "plain", "ign", "ign", "dfl", "inforh", "plainrh"]) for _ in range(3)]
    st = ["off"] * nev
    held, pending = set(), {}

    def apply(L, o, j):
        if ev[j]["L"] != L or st[j] not in ("on", "off"):
            return
        st[j] = {"enable": "on", "disable": "off", "destroy": "absent"}[o]

    def dispatch(L, s):
        for i in [i for i in range(nev) if ev[i]["L"] == L and st[i] == "on" and s in ev[i]["sigs"]]:
            if ev[i]["os"] and st[i] == "on":
                st[i] = "off"
            for x in ev[i]["prog"]:
                apply(L, x["o"], x["a"] - 1)

    ops = []
    guard = 0
    while len(ops) < nops and guard < 50 * nops:
        guard += 1
        r = rnd.random()
        if r < 0.36:
            s = rnd.randint(1, 3)
            subscribed = any(st[i] == "on" and s in ev[i]["sigs"] for i in range(nev))
            if not subscribed and (kind[s - 1] in NORAISE or rnd.random() < 0.6):
                continue
            ops.append({"o": "raise", "a": s})
            for L in range(1, n + 1):
                if L in held:
                    pending[L].append(s)
                else:
                    dispatch(L, s)
        elif r < 0.44:
            L = rnd.randint(1, n)
            if L not in held and len(held) < 2 and st[L - 1] == "on":
                ops.append({"o": "hold", "a": L}); held.add(L); pending[L] = []
        elif r < 0.56:
            if held:
                L = rnd.choice(sorted(held))
                if len(pending[L]) >= 1 or rnd.random() < 0.2:
                    ops.append({"o": "release", "a": L}); held.discard(L)
                    for s in pending.pop(L):
                        dispatch(L, s)
        elif r < 0.70:
            L = rnd.randint(1, n)
            mine = [j for j in range(nev) if ev[j]["L"] == L and st[j] in ("on", "off")]
            if L in held or len(mine) < 1:
                continue
            b = []
            for _ in range(rnd.randint(2, 3)):
                j = rnd.choice(mine)
                o = rnd.choice(["enable", "enable", "disable", "disable", "destroy"])
                b.append({"o": o, "a": j + 1}); apply(L, o, j)
            ops.append({"o": "batch", "a": L, "ops": b})
        elif r < 0.76:
            a, b = rnd.randrange(nev), rnd.randrange(nev)       # two loops, one call each, at the same time
            if ev[a]["L"] == ev[b]["L"] or ev[a]["L"] in held or ev[b]["L"] in held or "absent" in (st[a], st[b]):
                continue
            pair = []
            for j in (a, b):
                o = rnd.choice(["enable", "disable", "disable", "destroy"] if st[j] == "on" else ["enable", "enable", "disable"])
                pair.append({"o": o, "a": j + 1}); apply(ev[j]["L"], o, j)
            ops.append({"o": "race", "ops": pair})
        else:
            e = rnd.randrange(nev)
            if ev[e]["L"] in held:
                continue
            if st[e] == "absent":
                ops.append({"o": "create", "a": e + 1}); st[e] = "off"
            elif r < 0.84:
                ops.append({"o": "enable", "a": e + 1}); st[e] = "on"
            elif r < 0.96:
                ops.append({"o": "disable", "a": e + 1}); st[e] = "off"
            else:
                ops.append({"o": "destroy", "a": e + 1}); st[e] = "absent"
    sc = decorate(rnd, n, ev, ops)
    sc["kind"] = kind
    return sc


def cb_scripts(rnd):
    """Fixed histories: (a) a loop's last subscription is removed and another one added in ONE task (no loop pass in
    between: the deferred deletion of the old pipe event has not run yet, pipe2() hands back the same descriptors), then
    deliveries; (b) the same from inside a callback; (c) two subscribers of one signal whose callbacks disable the whole
    group, a subscriber of another signal in the same loop, the loop held while both signals are raised (one batch)."""
    out = []
    for eng in ENGINES:
        for (s1, s2) in ((1, 2), (2, 3), (3, 1)):
            for extra in (0, 1):                            # a second, idle loop with its own engine
                n = 1 + extra

                def mk(ev, ops):
                    sc = decorate(rnd, n, ev, ops)
                    sc["eng"][0] = eng
                    for s in (s1, s2):
                        sc["kind"][s - 1] = rnd.choice(["info", "plain", "ign"])
                    for o in sc["ops"]:
                        if o["o"] == "raise" and o["via"] in ("self", "async"):
                            o["t"] = 1
                    out.append(sc)
                E = lambda sigs, os=False, prog=(): {"L": 1, "sigs": sigs, "os": os, "prog": [{"o": o, "a": a} for o, a in prog]}
                R = lambda s, k=1: [{"o": "raise", "a": s}] * k
                # (a)
                for first in ("disable", "destroy"):
                    mk([E([s1]), E([s2])], [{"o": "enable", "a": 1}, {"o": "batch", "a": 1, "ops": [{"o": first, "a": 1}, {"o": "enable", "a": 2}]}]
                       + R(s2, 3) + R(s1))
                mk([E([s1]), E([s2])], [{"o": "enable", "a": 1}] + R(s1) + [{"o": "batch", "a": 1, "ops": [{"o": "disable", "a": 1}, {"o": "enable", "a": 1}]}]
                   + R(s1, 2))
                # (b)
                mk([E([s1], prog=[("disable", 1), ("enable", 2)]), E([s2])], [{"o": "enable", "a": 1}] + R(s1) + R(s2, 3) + R(s1))
                mk([E([s1], True, [("enable", 2)]), E([s2], True, [("enable", 1)])], [{"o": "enable", "a": 1}] + R(s1) + R(s2) + R(s1) + R(s2))
                # (c)
                grp = [("disable", 1), ("disable", 3)]
                ev = [E([s1], prog=grp), E([s2]), E([s1], prog=grp)]
                on = [{"o": "enable", "a": e} for e in (1, 2, 3)]
                mk(ev, on + [{"o": "hold", "a": 1}] + R(s1) + R(s2, 2) + [{"o": "release", "a": 1}] + R(s2))
                mk(ev, on + [{"o": "hold", "a": 1}] + R(s1, 2) + R(s2) + R(s1) + [{"o": "release", "a": 1}] + on[::2]
                   + [{"o": "hold", "a": 1}] + R(s2) + R(s1) + R(s2) + [{"o": "release", "a": 1}])
    return out


def random_script(rnd, nops, wide=False):
    """wide: 5-8 loops, each with (at least) one event on a common signal, so that many loops are subscribed to the same
    signal at the same time (the handler has to reach every one of them)."""
    ev = []
    if wide:
        n = rnd.randint(5, 8)
        s0 = rnd.randint(1, 3)
        for L in range(1, n + 1):
            sigs = sorted(set([s0] + [s for s in (1, 2, 3) if rnd.random() < 0.2]))
            ev.append({"L": L, "sigs": sigs, "os": rnd.random() < 0.2})
        for _ in range(rnd.randint(0, 10 - n)):
            sigs = [s for s in (1, 2, 3) if rnd.random() < 0.5] or [s0]
            ev.append({"L": rnd.randint(1, n), "sigs": sigs, "os": rnd.random() < 0.35})
        nev = len(ev)
    else:
        n = rnd.choice([2, 3, 3])
        nev = rnd.randint(3, 6)
        for _ in range(nev):
            sigs = [s for s in (1, 2, 3) if rnd.random() < 0.5] or [rnd.randint(1, 3)]
            ev.append({"L": rnd.randint(1, n), "sigs": sigs, "os": rnd.random() < 0.35})
    kind = [rnd.choice(KINDS) for _ in range(3)]
    st = ["off"] * nev
    ops = []
    while len(ops) < nops:
        r = rnd.random()
        e = rnd.randrange(nev)
        if r < 0.34:
            s = rnd.randint(1, 3)
            subscribed = any(st[i] == "on" and s in ev[i]["sigs"] for i in range(nev))
            if not subscribed and (kind[s - 1] in NORAISE or rnd.random() < 0.5):
                continue                                    # default action would end the process / keep idle raises rarer
            ops.append({"o": "raise", "a": s})
            for i in range(nev):
                if st[i] == "on" and ev[i]["os"] and s in ev[i]["sigs"]:
                    st[i] = "off"
        elif st[e] == "absent":
            if r < 0.8:
                ops.append({"o": "create", "a": e + 1}); st[e] = "off"
        elif r < (0.72 if wide else 0.62):
            if st[e] == "off" or rnd.random() < 0.15:       # sometimes enable() an enabled event
                ops.append({"o": "enable", "a": e + 1}); st[e] = "on"
        elif r < (0.92 if wide else 0.88):
            if st[e] == "on" or rnd.random() < 0.15:        # sometimes disable() a disabled event
                ops.append({"o": "disable", "a": e + 1}); st[e] = "off"
        else:
            ops.append({"o": "destroy", "a": e + 1}); st[e] = "absent"
    sc = decorate(rnd, n, ev, ops)
    sc["kind"] = kind
    return sc


def wide_scripts(rnd):
    """Fixed histories with 5..8 loops (own threads) all subscribed to one signal: everybody enables (both orders), one
    delivery per path, half of the loops leave, delivery, they come back, delivery, the others leave, delivery."""
    out = []
    for n in (5, 6, 7, 8):
        for s0 in (1, 2, 3):
            for rev in (False, True):
                ev = [{"L": L, "sigs": [s0], "os": False, "prog": []} for L in range(1, n + 1)]
                ev.append({"L": n, "sigs": sorted({s0, s0 % 3 + 1}), "os": True, "prog": []})        # a multi-signal one-shot on the last loop
                order = list(range(1, n + 2))
                if rev:
                    order.reverse()
                half, rest = order[:n // 2], order[n // 2:]
                ops = [{"o": "enable", "a": e} for e in order] + [{"o": "raise", "a": s0}] * 2
                ops += [{"o": "disable", "a": e} for e in half] + [{"o": "raise", "a": s0}]
                ops += [{"o": "enable", "a": e} for e in half] + [{"o": "raise", "a": s0}]
                ops += [{"o": "destroy", "a": e} for e in rest] + [{"o": "raise", "a": s0}]
                sc = decorate(rnd, n, ev, ops)
                sc["kind"][s0 - 1] = rnd.choice(["info", "plain", "ign"])                # every raise is really sent
                out.append(sc)
    return out


def race_scripts(rnd, rounds):
    """Two loops take turns on one signal: in every round the loop whose event is enabled disables it (its last subscription
    of S: restore + erase of the table entry) while the other loop enables its event (first subscription of S: install +
    save), both released together from a barrier with a swept start offset.  Whatever the order, afterwards exactly one
    event is enabled: every fourth round a delivery must reach it once (and the pre-existing handler once); at the end the
    original disposition must be back.  Keeper events on another signal keep both pipes open."""
    out = []
    for i, (e1, e2) in enumerate([(a, b) for a in ENGINES for b in ENGINES] + [("epoll", "epoll")] * 4):
        s0 = i % 3 + 1
        sk = s0 % 3 + 1
        ev = [{"L": 1, "sigs": [s0], "os": False, "prog": []}, {"L": 2, "sigs": [s0], "os": False, "prog": []},
              {"L": 1, "sigs": [sk], "os": False, "prog": []}, {"L": 2, "sigs": [sk], "os": False, "prog": []}]
        ops = [{"o": "enable", "a": 3}, {"o": "enable", "a": 4}, {"o": "enable", "a": 1}]
        base = rnd.randrange(256)
        for r in range(rounds):
            off, on = (1, 2) if r % 2 == 0 else (2, 1)
            ops.append({"o": "race", "ops": [{"o": "disable", "a": off}, {"o": "enable", "a": on}],
                        "da": (r // 64 + i) % 8, "db": (base + 5 * r) % 256})
            if r % 4 == 3:
                ops.append({"o": "raise", "a": s0})
        ops += [{"o": "raise", "a": s0}, {"o": "disable", "a": 1}, {"o": "disable", "a": 2}]
        sc = decorate(rnd, 2, ev, ops)
        sc["eng"] = [e1, e2]
        sc["kind"][s0 - 1] = rnd.choice(["info", "plain", "inforh", "plainrh"])
        for o in sc["ops"]:
            if o["o"] == "raise" and o["via"] == "step":
                o["via"] = "main"
        out.append(sc)
    return out


def burst_scripts(rnd):
    """Loop 1 subscribes first (lowest pipe descriptors) and is held; S is raised 1200 times one at a time (the driver has
    shrunk the pipes to one page = 1024 numbers, so loop 1's pipe overflows): the two events of loop 2 must get every single
    delivery; then loop 1 is released (whatever it still reads is accepted) and a last delivery must reach everybody."""
    out = []
    for eng in ENGINES:
        s0 = rnd.randint(1, 3)
        ev = [{"L": 1, "sigs": [s0], "os": False, "prog": []}, {"L": 2, "sigs": [s0], "os": False, "prog": []},
              {"L": 2, "sigs": sorted({s0, s0 % 3 + 1}), "os": False, "prog": []}]
        ops = [{"o": "enable", "a": 1}, {"o": "enable", "a": 2}, {"o": "enable", "a": 3}, {"o": "raise", "a": s0},
               {"o": "hold", "a": 1}, {"o": "burst", "a": s0, "n": 1200}, {"o": "release", "a": 1}, {"o": "raise", "a": s0}]
        sc = decorate(rnd, 2, ev, ops)
        sc["eng"] = [rnd.choice(ENGINES), eng]
        sc["kind"][s0 - 1] = rnd.choice(["info", "plain", "ign", "inforh"])
        out.append(sc)
    return out


def script_of_trace(lines):
    """--replay: rebuild the driver script from a recorded execution."""
    sc = None
    for ln in lines:
        ln = ln.strip()
        if not ln.startswith("{"):
            continue
        e = json.loads(ln)
        if e["e"] == "Reset":
            if sc:
                break
            sc = {"n": e["n"], "eng": e["eng"], "kind": e["kind"], "ev": e["ev"], "ops": []}
        elif sc is None:
            continue
        elif e["e"] in ("create", "enable", "disable", "destroy"):
            sc["ops"].append({"o": e["e"], "a": e["ev"]})
        elif e["e"] == "raise":
            sc["ops"].append({"o": "raise", "a": e["s"], "via": e["via"], "t": e["t"]})
        elif e["e"] == "burst":
            sc["ops"].append({"o": "burst", "a": e["s"], "n": e["n"]})
        elif e["e"] == "noraise":
            sc["ops"].append({"o": "raise", "a": e["s"], "via": "main", "t": 0})
        elif e["e"] == "race":
            sc["ops"].append({"o": "race", "a": 0, "ops": e["ops"], "da": 0, "db": 0})
        elif e["e"] in ("hold", "release"):
            sc["ops"].append({"o": e["e"], "a": e["L"]})
        elif e["e"] == "batch":
            sc["ops"].append({"o": "batch", "a": e["L"], "ops": e["ops"]})
    return sc


def execution_around(trace_path, pos):
    """Lines of the execution that contains 1-based line <pos>; an execution starts with its Reset line (which carries
    the configuration) and ends before the next one."""
    lines = open(trace_path).read().splitlines()
    pos = min(max(pos, 1), len(lines))
    a = pos - 1
    while a > 0 and '"e":"Reset"' not in lines[a]:
        a -= 1
    b = pos
    while b < len(lines) and '"e":"Reset"' not in lines[b]:
        b += 1
    return lines[a:b], pos - a


def run_scripts(ctx, exe, scripts, tag, what, replayed):
    """Run the scripts on the real code and let TLC validate the recorded traces.  The scripts are sharded: every shard
    is executed by its own driver process (signals are per process) and validated by its own single-worker TLC, shards
    in parallel.  Driver watchdog / timeouts = infrastructure error, never a verdict.  A rejected shard is validated a
    second time before it is reported (same rule as vlib.Ctx.tlc_trace)."""
    import re
    import time
    k = max(1, min(vlib.NCPU, 8, (len(scripts) + 199) // 200))
    shards = [scripts[i * len(scripts) // k:(i + 1) * len(scripts) // k] for i in range(k)]
    spec_dir = os.path.join(vlib.SPEC, "Signals")
    metas = [(ctx.metadir(), ctx.metadir()) for _ in range(k)]
    t0 = time.time()

    def one(i):
        sp, tp = ctx.tmp("%s.%d.jsonl" % (tag, i)), ctx.tmp("%s.%d.ndjson" % (tag, i))
        with open(sp, "w") as f:
            for sc in shards[i]:
                f.write(json.dumps(sc) + "\n")
        rc, out = vlib.run_harness(exe, [sp, tp], timeout=900 if ctx.quick() else 3000)
        if os.path.exists(tp) and hasattr(vlib, "sanitize_trace"):
            vlib.sanitize_trace(tp)
        r = {"i": i, "rc": rc, "out": out, "trace": tp, "fault": None, "ok": False, "info": {}, "infra": None, "states": 0, "gen": 0}
        if rc in (3, 124):
            r["infra"] = "driver watchdog/timeout (%s shard %d rc=%d)\n%s" % (tag, i, rc, out[-1500:])
            return r
        if not os.path.exists(tp):
            r["infra"] = "driver wrote no trace (%s shard %d rc=%d)\n%s" % (tag, i, rc, out[-1500:])
            return r
        if rc != 0:                                         # killed by a signal, sanitizer exit, ...: nothing matches a Fault line
            r["fault"] = "driver exit %d: %s" % (rc, out[-1200:])
            with open(tp, "a") as f:
                f.write('\n{"e":"Fault","kind":"exit","what":"rc=%d"}\n' % rc)
        elif "FAULT kind=" in out:
            r["fault"] = "Fault recorded: " + out[-1200:]
        r["n_exec"] = vlib.count_execs(tp)
        for attempt in (0, 1):
            cmd = vlib._tlc_cmd("Trace_Signals.tla", "Trace_Signals.cfg", metas[i][attempt], 1, [], ("-Xmx3g",))
            trc, tout = vlib.sh(cmd, timeout=1800, env={"TRACE": tp}, cwd=spec_dir)
            pr = vlib._parse_tlc(tout)
            r["states"] += pr["distinct"]
            r["gen"] += pr["states"]
            if trc == 0:
                r["ok"] = True
                return r
            if trc == 124:
                r["infra"] = "TLC trace validation timeout (%s shard %d)" % (tag, i)
                return r
            m = re.search(r'<<"MAXPOS", (\d+), (\d+)>>', tout)
            if pr["violated"] is None and m is None:
                r["infra"] = "TLC trace validation failed rc=%d (%s shard %d)\n%s" % (trc, tag, i, tout[-3000:])
                return r
            r["info"] = {"violated": pr["violated"], "maxpos": int(m.group(1)) if m else None}
        return r

    with cf.ThreadPoolExecutor(max_workers=k) as ex:
        res = sorted(ex.map(one, range(k)), key=lambda r: r["i"])
    infra = [r["infra"] for r in res if r["infra"]]
    n_ok = 0
    verdict = True
    for r in res:
        if r["infra"]:
            continue
        ctx.states += r["states"]
        ctx.transitions += r["gen"]
        if r["ok"] and not r["fault"]:
            n_ok += r["n_exec"]
            continue
        if not verdict:
            continue                                        # one report per run is enough
        verdict = False
        info = r["info"]
        pos = (info.get("maxpos") or 1) if not r["ok"] else sum(1 for _ in open(r["trace"]))
        lines, rel = execution_around(r["trace"], pos)
        nxt = lines[rel - 1] if rel - 1 < len(lines) else "(end of trace)"
        replay = ctx.save_replay("trace", "\n".join(lines) + "\n")
        msg = "%s: trace rejected at line %d of the execution (%s); first unmatched line: %s" % (
            what, rel, ("invariant " + info["violated"]) if info.get("violated") else "no spec action matches", nxt[:400])
        if r["fault"]:
            msg += " | " + r["fault"]
        ctx.violation(msg, replay)
    if infra and verdict:                                   # an infrastructure failure of one shard does not hide the
        raise vlib.Infra(infra[0])                          # rejection found in another one, but nothing passes with it
    res = [r for r in res if not r["infra"]]
    if replayed:
        ctx.replays_ok += n_ok
    else:
        ctx.traces_ok += n_ok
    ctx.mc_runs.append({"model": "Trace_Signals.tla/Trace_Signals.cfg", "expect": "accept-trace", "executions": n_ok, "shards": k,
                        "distinct_states": sum(r["states"] for r in res), "what": what, "wall_s": round(time.time() - t0, 1)})
    ctx.log("TRACE %-38s %s: %d executions accepted, %d lines, %d shards %.1fs" % (
        what[:38], "accepted" if verdict else "REJECTED", n_ok, sum(r["states"] for r in res), k, time.time() - t0))
    return verdict, res[0]["trace"]


def models(ctx):
    ctx.tlc_mc("Signals", "MC_Signals.tla", "MC_cov.cfg", required_actions=ACTIONS)           # one configuration, all kinds, per-action coverage
    ctx.tlc_mc("Signals", "MC_Signals.tla", "MC_quick.cfg", coverage=False)                    # 32 configurations x 4 kind vectors
    ctx.tlc_mc("Signals", "MC_Signals.tla", "MC_cb.cfg", coverage=False)                       # callbacks that change subscriptions, every serving order
    for bug, inv in INVS_OF_BUG:                                                               # seeded design defects: non-vacuity
        if ctx.quick() and bug not in QUICK_BUGS:
            continue
        ctx.tlc_mc("Signals", "MC_Signals.tla", "MC_bug_%s.cfg" % bug, expect=inv, coverage=False, workers=2,
                   label="as-found/seeded defect '%s'" % bug)
    for f in glob.glob(os.path.join(vlib.SPEC, "Signals", "MC_Signals_TTrace_*")):          # TLC drops the counterexamples of
        os.remove(f)                                                                           # the expected violations here
    if not ctx.quick():
        ctx.tlc_mc("Signals", "MC_Signals.tla", "MC_thorough.cfg", coverage=False, timeout=1500)
        ctx.tlc_mc("Signals", "MC_Signals.tla", "MC_wide.cfg", coverage=False, timeout=1500)


def run(ctx):
    exe = vlib.build("c04_signals", SRC, ["c04_signals/driver.cpp"], flavour="asan", defines=DEFS)
    ctx.fault_observers = ["AddressSanitizer+UBSan on the harness build", "terminate/signal handlers (crash, uncaught exception -> Fault line)"]
    if ctx.replay_path:
        lines = open(ctx.replay_path).read().splitlines()
        sc = script_of_trace(lines)
        if sc is None:                                      # a model-level counterexample: re-run the models
            models(ctx)
            return
        run_scripts(ctx, exe, [sc], "replay", "replay of %s" % os.path.basename(ctx.replay_path), True)
        return
    # 1. the design
    models(ctx)
    # 2. spec -> code: all scripts of the sequential model up to the depth bound
    rnd = random.Random(ctx.seed)
    scripts = []
    # plain op sequences / + callbacks that change subscriptions and two-call batch tasks / + a held loop reading batches
    for cfgs in (("Gen_quick.cfg", "Gen_thorough.cfg"), ("Gen_cb.cfg", "Gen_cb_thorough.cfg"), ("Gen_hold.cfg", "Gen_hold_thorough.cfg")):
        cfg = cfgs[0] if ctx.quick() else cfgs[1]
        behs = ctx.tlc_gen("Signals", "Gen_Signals.tla", cfg, timeout=900)
        behs.sort(key=lambda b: json.dumps(b, sort_keys=True))    # TLC's output order depends on its worker threads
        scripts += [decorate(rnd, 2, b["ev"], b["ops"]) for b in behs]
        ctx.notes.append("%s: %d scripts (all step sequences of the depth bound), each executed once with seeded delivery "
                         "paths / engines / kinds" % (cfg, len(behs)))
    ctx.exhaustive = True
    ctx.sample({"kind": "model behaviour executed on real loops/threads/signals", "script": scripts[len(scripts) // 2]})
    ok, tr = run_scripts(ctx, exe, scripts, "gen", "replay of %d model behaviours" % len(scripts), True)
    if ok:
        lines, _ = execution_around(tr, 2)
        ctx.sample({"kind": "recorded trace of one replayed behaviour", "events": [json.loads(x) for x in lines[:14]]})
    # 3. code -> spec: long random histories: 2-3 loops, 3 signals, up to 6 events; and 5-8 loops (up to 10 events) that
    #    share a signal, plus 24 fixed histories of that shape
    nexec, nops = (1000, 30) if ctx.quick() else (12000, 60)
    nwide = nexec // 4                                            # a quarter of them with 5-8 loops sharing a signal
    rscripts = wide_scripts(rnd) + [random_script(rnd, nops, wide=i < nwide) for i in range(nexec)]
    rscripts += cb_scripts(rnd) + [random_cb_script(rnd, nops) for _ in range(nexec // 2)]   # callbacks that (un)subscribe, batches, held loops
    rscripts += race_scripts(rnd, 120 if ctx.quick() else 600)   # concurrent last-unsubscribe / first-subscribe of two loops
    rscripts += burst_scripts(rnd)                                # a held loop's pipe overflows, the other loops keep getting everything
    rnd.shuffle(rscripts)                                         # spread the expensive ones over the shards
    ok, tr = run_scripts(ctx, exe, rscripts, "random", "%d random histories of %d steps" % (len(rscripts), nops), False)
    if ok:
        lines, _ = execution_around(tr, 2)
        ctx.sample({"kind": "recorded random history (first events)", "events": [json.loads(x) for x in lines[:10]]})
    ctx.assumptions = [
        "quantifier of the statement: signals are raised one at a time, only between subscription calls; every step is awaited",
        "after a raise the driver waits for the handler to return (synchronous for kill()/raise() on the calling thread; for "
        "pthread_kill a task posted afterwards has run on the target thread - Linux delivers a pending signal before returning to "
        "user mode) and then for three full passes of every loop (runInLoop -> runNext markers); no sleeps",
        "while somebody is subscribed the kernel disposition is only recorded, not constrained (the statement does not say how "
        "tbox receives the signal); when nobody is subscribed handler, flags and mask must equal the saved sigaction",
        "signals used: SIGUSR1, SIGUSR2, SIGRTMIN+1; a signal is not sent while the current disposition is SIG_DFL or has SA_RESETHAND "
        "(logged as noraise; accepted only when the model says nobody is subscribed and that is the pre-existing disposition)",
        "concurrent subscription calls of two loops (race steps): the expected state is order-independent; the driver interposes "
        "sigaction() and holds the unsubscribing side inside its restore call (<= 2 ms) until the other loop's call has finished",
        "burst: the driver shrinks the loops' signal pipes to one page (fcntl F_SETPIPE_SZ on the descriptors seen at the hook point), "
        "so that 1200 deliveries overflow the pipe of a held loop; what an overflowed pipe still delivers after release is left open",
        "callbacks that change subscriptions: an event of the set being served that an earlier callback of the same dispatch "
        "unsubscribed may or may not be called (the statement does not say); an event enabled by a callback is served from the next "
        "number on; an event is never destroyed while it may be in the set being served (the code has a FIXME there)",
        "a loop is held (its thread parked in a task) only while an untouched persistent event keeps its pipe open: what happens to "
        "numbers already queued when a callback closes the loop's pipe is not specified and not generated",
    ]
    ctx.uncovered = [
        "subscription changes made concurrently with a DELIVERY from another thread (outside the statement's quantifier); destroying "
        "an event from a callback of the delivery that is serving it; numbers pending in a pipe that a callback closes",
        "more than 8 loops / 3 signals on the real code; kernel merging of pending standard signals (excluded by the statement)",
        "sa_restorer and SA_RESTORER are compared only as part of sa_flags as returned by sigaction()",
    ]
