# E12 - tbox::http::Url (StringToUrl / UrlToString and the host / path halves), the HTTP message printers (Request::toString,
#       Respond::toString) with the server's RequestParser as the receiver of printed requests, and the http client.
#       The client of this cpp-tbox version is an empty stub (initialize() returns false, request() does nothing): there is no
#       response parser to check.  What is checked instead: the printers emit messages that decode - by a reference decoder for
#       responses, by the reference decoder AND the real RequestParser under any segmentation for requests - to the messages, in
#       order, bodies whole; Url print/parse are inverse on representable values, parsing is total, malformed escapes are rejected,
#       the fragment is opaque, the port is a 16-bit number.
#   model:   spec/HttpMsg/UrlRef.tla + MsgRef.tla (reference operators shaped like url.cpp and the printers), HttpMsg.tla (the laws
#            as invariants over every case of small adversarial domains) -- TLC exhaustive; three as-found switches must violate.
#   binding: spec -> code: every case of the law model is printed by Gen_HttpMsg and executed by harness/e12_httpmsg/driver.cpp on
#            the real functions; code -> spec: seeded random cases (hostile bytes, token soup, bodies up to 70 KB, random cuts);
#            every recorded call (inputs, outputs, exceptions; for pipelines every parse() call and every delivered request) is
#            validated by TLC against spec/HttpMsg/Trace_HttpMsg.tla.
import json
import random
import vlib

SRC = vlib.BASE_SRC + ["http/url.cpp", "http/common.cpp", "http/request.cpp", "http/respond.cpp", "http/server/request_parser.cpp",
                       "http/client/client.cpp", "util/string.cpp", "util/buffer.cpp", "network/sockaddr.cpp", "network/ip_address.cpp"]
ACTIONS = ["PickHost", "PickPath", "PickStr", "PickPort", "PickReqs", "PickResps"]
TLC_ENV = {"JAVA_TOOL_OPTIONS": "-Xss512m"}        # recursive reference decoders over message bytes
MAXLINES = 16000


def validate(ctx, exe, args, trace, what):
    return vlib.record_and_validate(ctx, exe, args, trace, "HttpMsg", "Trace_HttpMsg.tla", "Trace_HttpMsg.cfg", what, timeout=1500, tlc_env=TLC_ENV)


def est_lines(c):
    if c["k"] == "reqs":
        return 3 + (5 if len(c["rs"]) == 1 else 3) * (2 + len(c["rs"]))
    return 5


def run_cases(ctx, exe, cases, tag):
    chunks, cur, n = [], [], 0
    for c in cases:
        w = est_lines(c)
        if cur and n + w > MAXLINES:
            chunks.append(cur)
            cur, n = [], 0
        cur.append(c)
        n += w
    if cur:
        chunks.append(cur)
    for k, ch in enumerate(chunks):
        sp = ctx.tmp("%s_%d.jsonl" % (tag, k))
        with open(sp, "w") as f:
            for c in ch:
                f.write(json.dumps(c) + "\n")
        tr = ctx.tmp("%s_%d.ndjson" % (tag, k))
        good, n = validate(ctx, exe, ["cases", sp, tr, ctx.seed], tr, "%d model cases on the real code (%s #%d)" % (len(ch), tag, k))
        if not good:
            return False
        ctx.traces_ok -= n
        ctx.replays_ok += n
    return True


def case_of_events(ev):
    for e in ev:
        k = e["e"]
        if k == "print":
            return {"k": "url", "u": e["u"]}
        if k == "parse":
            return {"k": "str", "s": e["in"]}
        if k == "reqs":
            return {"k": "reqs", "rs": e["rs"], "bytewise": True}
        if k == "resps":
            return {"k": "resps", "rs": [dict(r, reason=[]) for r in e["rs"]]}
        if k == "begin" and e["what"] == "print":
            return {"k": "url", "u": e["u"]}
        if k == "begin" and e["what"] == "parse":
            return {"k": "str", "s": e["in"]}
    return None


def run(ctx):
    exe = vlib.build("e12_httpmsg", SRC, ["e12_httpmsg/driver.cpp"], flavour="asan", defines=vlib.BASE_DEFS)
    ctx.fault_observers = ["AddressSanitizer+UBSan on the harness build (exactly sized copies of the bytes handed to RequestParser::parse)",
                           "every call wrapped: an escaping C++ exception is recorded and rejected", "terminate/signal handlers"]
    if ctx.replay_path:
        ev = [json.loads(x) for x in open(ctx.replay_path) if x.strip().startswith("{")]
        c = case_of_events(ev)
        if c is None:
            raise vlib.Infra("replay file holds no case")
        run_cases(ctx, exe, [c], "replay")
        return
    quick = ctx.quick()
    # 1. the laws on the reference operators
    ctx.tlc_mc("HttpMsg", "HttpMsg.tla", "MC_laws_quick.cfg" if quick else "MC_laws_thorough.cfg", required_actions=ACTIONS, jvm=("-Xmx6g", "-Xss64m"), timeout=3000)
    for cfg, inv in (("MC_asfound_raw_parts.cfg", "LawPrintParse"), ("MC_asfound_late_marks.cfg", "LawFragOpaque"), ("MC_asfound_port_wrap.cfg", "LawPort")):
        ctx.tlc_mc("HttpMsg", "HttpMsg.tla", cfg, expect=inv, coverage=False, jvm=("-Xmx6g", "-Xss64m"))
    # 2. spec -> code: every case of the law model
    cases = ctx.tlc_gen("HttpMsg", "Gen_HttpMsg.tla", "Gen_quick.cfg" if quick else "Gen_thorough.cfg", jvm=("-Xmx6g", "-Xss64m"), timeout=3000)
    cases.sort(key=lambda c: json.dumps(c, sort_keys=True))
    ctx.exhaustive = True
    kinds = {}
    for c in cases:
        kinds[c["k"]] = kinds.get(c["k"], 0) + 1
    ctx.notes.append("model cases executed on the real code: %s" % ", ".join("%s %d" % kv for kv in sorted(kinds.items())))
    ctx.sample({"kind": "model case executed on the real code", "case": next(c for c in cases if c["k"] == "url" and c["u"]["frag"])})
    ctx.sample({"kind": "model case executed on the real code", "case": next(c for c in cases if c["k"] == "reqs" and len(c["rs"]) == 2 and c["rs"][0]["b"])})
    if not run_cases(ctx, exe, cases, "gen"):
        return
    # 3. code -> spec: seeded random cases
    nrand = 2500 if quick else 60000
    per = 2500
    done, k = 0, 0
    while done < nrand:
        n = min(per, nrand - done)
        tr = ctx.tmp("random_%d.ndjson" % k)
        good, _ = validate(ctx, exe, ["random", ctx.seed * 1000 + k, n, tr], tr, "random cases #%d" % k)
        if not good:
            return
        if k == 0:
            ctx.sample({"kind": "recorded trace (first events)", "events": [json.loads(x) for x in vlib.read_lines(tr, 3, 6)]})
        done += n
        k += 1
    ctx.assumptions = ["representable Url values: scheme and host of letters, digits, '-', '.', '_' (they are printed raw); a password only with a user; an "
                       "absolute path; non-empty parameter / query keys; port 0 = none", "header keys without ':' and header values non-empty without "
                       "surrounding blanks (the receiving parser strips blanks and refuses empty values); message bodies <= 70 KB",
                       "texts the reference accepts but that are not plain (empty host, '@' without user, ...) and odd port texts (sign, blanks, trailing "
                       "characters, which std::stoi tolerates) are only required not to throw"]
    ctx.uncovered = ["http client response parsing, Content-Length bodies, pipelined responses, malformed status lines: client/client.cpp is an unimplemented "
                     "stub in this version (initialize() returns false, request() never calls back) - only its calls returning is observed",
                     "Respond::toString with a user-supplied Content-Length header prints two Content-Length lines (the last one is the body length); "
                     "not judged", "IPv6 literals in the host part (unsupported by StringToUrlHost: rejected)"]
