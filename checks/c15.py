# C15 - DNS client: reply parsing is total and bounded; each lookup completes once.
#   models:  spec/Dns/DnsReply.tla   byte-level reference Classify(datagram) / OnlyEncoded           (oracle of the binding)
#            spec/Dns/DnsParse.tla   implementation-shaped parser (frames of FetchDomain)  -- TLC exhaustive over DnsGen's datagrams
#            spec/Dns/DnsLookup.tla  lookup state machine (request / cancel / reply / tick) -- TLC exhaustive, + 4 defective variants
#   binding: a real DnsRequest on a real loop talks UDP to fake servers on 127.A.B.{1,2,3}:53 (harness/c15_dns/driver.cpp);
#            spec -> code: every datagram of Gen_DnsReply, every script of Gen_DnsLookup (BFS + simulation);
#            code -> spec: seeded random datagrams (random bytes, mutated replies, pointer soups) and random histories;
#            all recorded traces validated by TLC against spec/Dns/Trace_Dns.tla.
#            ASan+UBSan (+ pattern-initialised locals) on the main build, valgrind memcheck on a plain build.
import json
import os
import random
import shutil
import vlib

SRC = vlib.BASE_SRC + [
    "event/loop.cpp", "event/common_loop.cpp", "event/common_loop_run.cpp", "event/common_loop_signal.cpp",
    "event/common_loop_timer.cpp", "event/misc.cpp", "event/stat.cpp", "event/timer_event_impl.cpp",
    "event/signal_event_impl.cpp", "event/engines/epoll/loop.cpp", "event/engines/epoll/fd_event.cpp",
    "event/engines/select/loop.cpp", "event/engines/select/fd_event.cpp",
    "util/serializer.cpp", "util/string.cpp", "util/fs.cpp", "util/fd.cpp",
    "network/dns_request.cpp", "network/udp_socket.cpp", "network/socket_fd.cpp", "network/sockaddr.cpp", "network/ip_address.cpp",
]
DEFS = vlib.BASE_DEFS + ["HAVE_EPOLL=1", "HAVE_SELECT=1"]
TLC_ENV = {"JAVA_TOOL_OPTIONS": "-Xss256m"}      # the reference name decoder recurses once per label / pointer
QNAME = [1, 97, 2, 98, 99, 0]                     # "a.bc" as asked by every lookup
# a decoder that never terminates is cut after 3 s of CPU time in one step (Fault "hang"); its memory growth is capped meanwhile
RUN_ENV = {"VERIF_STEP_CPU_S": "3",
           "ASAN_OPTIONS": vlib.SAN_ENV["ASAN_OPTIONS"] + ":hard_rss_limit_mb=3000:max_allocation_size_mb=1024"}
PER_EXEC = 12                                    # lookups (one datagram each) per execution in the datagram runs


# ------------------------------------------------------------------------------------------------ datagrams
def hdr(flags, qd, an, ns=0, ar=0):
    return [0, 0, flags >> 8, flags & 255, qd >> 8, qd & 255, an >> 8, an & 255, ns >> 8, ns & 255, ar >> 8, ar & 255]


def random_datagrams(rnd, pool_ok, n):
    """Seeded hostile datagrams beyond the TLC-generated families."""
    out = []
    q = QNAME + [0, 1, 0, 1]
    for i in range(n):
        kind = i % 9
        if i % 30 == 17:                                  # label length octets 63..191 with that many bytes behind them
            d, tag = long_label(rnd, q)
            out.append({"tag": tag, "d": d})
            continue
        if i % 60 == 59:                                  # a large reply now and then (they are long: keep them few)
            d, tag = large_reply(rnd, q)
            out.append({"tag": tag, "d": d})
            continue
        if kind == 0:                                     # random bytes
            d = [rnd.randrange(256) for _ in range(rnd.choice([0, 1, 2, 3, 4, 5, 11, 12, 13, 20, 40, 80]))]
            tag = "rnd-bytes"
        elif kind == 1:                                   # reply header + random tail
            d = hdr(0x8180, rnd.choice([0, 1, 1, 1, 2]), rnd.choice([0, 1, 2, 3, 200, 65535])) + \
                [rnd.randrange(256) for _ in range(rnd.randrange(0, 60))]
            tag = "hdr+rnd"
        elif kind == 2:                                   # header + question + random tail
            d = hdr(0x8180, 1, rnd.choice([1, 2, 3, 7])) + q + [rnd.randrange(256) for _ in range(rnd.randrange(0, 60))]
            tag = "hdr+q+rnd"
        elif kind in (3, 4):                              # well-formed reply with byte flips / deletions / insertions
            d = list(rnd.choice(pool_ok))
            for _ in range(rnd.randrange(1, 4)):
                op = rnd.randrange(3)
                if op == 0 and len(d) > 4:
                    d[rnd.randrange(2, len(d))] = rnd.choice([0, 1, 5, 12, 63, 64, 191, 192, 193, 255, rnd.randrange(256)])
                elif op == 1 and len(d) > 4:
                    del d[rnd.randrange(2, len(d))]
                else:
                    d.insert(rnd.randrange(2, len(d) + 1), rnd.randrange(256))
            tag = "mutated"
        elif kind == 5:                                   # pointer soup: records whose names are pointers to pointers
            body = []
            npt = rnd.randrange(2, 40)
            base = 12 + len(q)
            for j in range(npt):
                tgt = base + 2 * rnd.randrange(npt)
                body += [192 | (tgt >> 8), tgt & 255]
            d = hdr(0x8180, 1, rnd.choice([1, 2])) + q + body + [0, rnd.choice([1, 5]), 0, 1, 0, 0, 0, 9, 0, 4, 9, 8, 7, 6]
            tag = "ptr-soup"
        elif kind == 6:                                   # backward pointer chain of chosen length ending at the question name
            m = rnd.choice([1, 2, 3, 4, 5, 8, 15, 16, 17, 40, 120])
            base = 12 + len(q)
            # the chain sits in the rdata of a TXT record (12 bytes into it), then an A record whose owner is the last pointer
            d = hdr(0x8180, 1, 2) + q + [192, 12, 0, 16, 0, 1, 0, 0, 0, 1, (2 * m) >> 8, (2 * m) & 255]
            for j in range(m):
                tgt = 12 if j == 0 else base + 12 + 2 * (j - 1)
                d += [192 | (tgt >> 8), tgt & 255]
            own = base + 12 + 2 * (m - 1)
            d += [192 | (own >> 8), own & 255, 0, 1, 0, 1, 0, 0, 0, 7, 0, 4, 10, 9, 8, m & 255]
            tag = "ptr-chain-%d" % m
        elif kind == 7:                                   # a name that loops THROUGH ordinary labels (1-3 labels, then a pointer back)
            d, tag = label_cycle(rnd, q)
        else:                                             # long names / many labels / big datagrams
            labels = []
            for _ in range(rnd.choice([1, 3, 10, 40])):
                ln = rnd.choice([1, 2, 5, 63])
                labels += [ln] + [rnd.choice(b"abcxyz019-") for _ in range(ln)]
            d = hdr(0x8180, 1, 1) + q + [192, 12, 0, 5, 0, 1, 0, 0, 0, 3, (len(labels) + 1) >> 8, (len(labels) + 1) & 255] + labels + [0]
            tag = "long-name"
        out.append({"tag": tag, "d": d[:4096]})
    return out


def rec(owner, rtype, rdata, ttl=(0, 0, 0, 9)):
    return owner + [rtype >> 8, rtype & 255, 0, 1] + list(ttl) + [len(rdata) >> 8, len(rdata) & 255] + rdata


def ptr(off):
    return [192 | (off >> 8), off & 255]


def large_reply(rnd, q, total=None):
    """Well-formed reply of 1..4 KB: TXT records with long rdata (skipped by the parser) push a literal CNAME name to an offset
    H >= 1024; later names are compressed with pointers to H (and into it). Wherever H mod 256/512/1024/2048 lies inside the
    padding a DIFFERENT valid name is planted there, so a decoder that loses high bits of the 14-bit offset reports a wrong name."""
    base = 12 + len(q)
    H = rnd.choice([1024, 1025, 1279, 1536, 2047, 2048, 2049, 2560, 3071, 3072, 3333, 4000]) if total is None else total - 100
    lab = lambda: [rnd.choice(b"abcdefgh0123") for _ in range(rnd.randrange(1, 6))]
    n1, n2 = lab(), lab()
    name = [len(n1)] + n1 + [len(n2)] + n2 + [0]          # literal name at H
    # two padding TXT records: [base+12, ...) and a second one ending at H - 12
    p1 = rnd.randrange(40, (H - base - 40) // 2)
    pad_total = H - 12 - (base + 12) - 12                 # rdata bytes of both pads together
    pads = [p1, pad_total - p1]
    d = hdr(0x8180, 1, 5) + q
    for pl in pads:
        d += rec(ptr(12), 16, [33] * pl)
    assert len(d) == H - 12, (len(d), H)
    for m in (256, 512, 1024, 2048):                      # decoys where the truncated offsets fall into padding
        for tgt in (H, H + 1 + len(n1)):
            o = tgt % m
            if o != tgt and base + 14 <= o and o + 4 < H - 12 and all(x == 33 for x in d[o:o + 4]) and \
               not (base + 12 + pads[0] - 4 <= o <= base + 12 + pads[0] + 12):
                d[o:o + 4] = [2, 122, 122, 0]             # "zz"
    d += rec(ptr(12), 5, name, (0, 0, 0, 60))             # CNAME literal, rdata at H
    d += rec(ptr(12), 5, [1, 101] + ptr(H), (0, 0, 2, 88))                  # "e" + pointer to H
    d += rec(ptr(H + 1 + len(n1)), 1, [10, 9, 8, 7], (0, 0, 0, 7))          # owner = pointer to the second label of the name at H
    if total is not None and len(d) + 16 <= total:        # fill up to the wanted size with one more TXT record, or leave
        fill = total - len(d) - 12
        if fill >= 0:
            d += rec(ptr(12), 16, [33] * fill)
        else:
            d[7] -= 1
    else:
        d[7] -= 1
    return d, "large-%d" % len(d)


def oversize_replies(rnd, q):
    """Datagrams LARGER than UdpSocket's 4096-byte receive buffer, well-formed as sent: a TXT record whose rdata ends at
    offset B (before / at / behind the 4096th byte), then A records up to the wanted size.  The receiver sees only a prefix:
    whatever it does with it, it must not read behind what it received nor report anything that is not in the datagram."""
    out = []
    base = 12 + len(q)
    for size, B in ((4097, 4081), (4100, 4090), (4112, 4096), (5000, 4097), (5000, 4500), (9000, 4200), (20000, 8000), (65000, 4096),
                    (65000, 64000)):
        n = min(24, max(1, (size - B) // 16))
        d = hdr(0x8180, 1, 1 + n) + q + rec(ptr(12), 16, [33] * (B - base - 12))
        for j in range(n):
            d += rec(ptr(12), 1, [10, 77, j, rnd.randrange(256)], (0, 0, 0, 7))
        if len(d) < size:                                 # more skipped padding in the additional section
            d[11] = 1
            d += rec(ptr(12), 16, [35] * max(0, size - len(d) - 12))
        out.append({"tag": "oversize-%d-%d" % (len(d), B), "d": d})
    # sizes around the buffer size that must still be handled whole and exactly
    for total in (4095, 4096):
        d, _ = large_reply(rnd, q, total)
        out.append({"tag": "edge-%d" % len(d), "d": d})
    return out


def long_label(rnd, q):
    """A label whose length octet is 63 (longest regular label) or 64..191 (reserved label types, which the code reads as plain
    lengths), followed by that many bytes, at a random name position (question, owner, CNAME target, behind a pointer)."""
    L = rnd.choice([63, 64, 65, 66, 80, 100, 126, 127, 128, 129, 160, 190, 191])
    lab = [L] + [rnd.choice(b"abcdefghijklmnopqrstuvwxyz0123456789-") for _ in range(L)]
    pre = [rnd.choice([[], [1, 119], [3, 119, 119, 119]])][0]
    name = pre + lab + rnd.choice([[0], [2, 98, 99, 0], [192, 12], lab + [0]])
    base = 12 + len(q)
    a_fix = [0, 1, 0, 1, 0, 0, 0, 7, 0, 4, 10, 9, 8, 7]
    where = rnd.randrange(5)
    if where == 0:
        d = hdr(0x8180, 1, 1) + [x for x in name if True] + [0, 1, 0, 1] + [192, 12] + a_fix
        if name[-2:] == [192, 12]:                        # no pointer to itself in the question
            d = hdr(0x8180, 1, 1) + name[:-2] + [0] + [0, 1, 0, 1] + [192, 12] + a_fix
    elif where == 1:
        d = hdr(0x8180, 1, 1) + q + name + a_fix
    elif where == 2:
        d = hdr(0x8180, 1, 2) + q + rec(ptr(12), 5, name) + ptr(12) + a_fix
    elif where == 3:                                      # second CNAME = label + pointer into the first one's long name
        d = hdr(0x8180, 1, 2) + q + rec(ptr(12), 5, name) + rec(ptr(12), 5, [1, 101] + ptr(base + 12 + len(pre)), (0, 0, 2, 88))
    else:                                                 # long name in skipped TXT rdata, owner of an A record points into it
        d = hdr(0x8180, 1, 2) + q + rec(ptr(12), 16, name) + ptr(base + 12) + a_fix
    return d, "long-label-%d" % L


def crowd_script(rnd, pools, K, order, n=1):
    """K lookups outstanding at once on one DnsRequest, then every one of them answered (in issue order / reverse / shuffled):
    every callback exactly once, the ids of simultaneously live lookups pairwise distinct. Compact trace (no isRunning lists)."""
    steps = [{"o": "req"} for _ in range(K)]
    ks = list(range(1, K + 1))
    if order == "reverse":
        ks.reverse()
    elif order == "shuffled":
        rnd.shuffle(ks)
    small = [g for g in pools["ok"] if len(g["d"]) <= 60] + [g for g in pools["nxdomain"] if len(g["d"]) <= 40]
    for k in ks:
        g = rnd.choice(small)
        steps.append({"o": "reply", "s": rnd.randrange(1, n + 1), "k": k, "d": g["d"], "tag": "crowd"})
    return {"n": n, "steps": steps, "end_ticks": 40, "compact": True}


def label_cycle(rnd, q):
    """Reply whose question / owner / CNAME name (or a name reached through a pointer) runs through 1-3 ordinary labels and then
    points back into them: no chain of CONSECUTIVE pointers is ever long, yet the name never ends."""
    def cyc(off):
        labs, n = [], rnd.randrange(1, 4)
        starts = []
        for _ in range(n):
            ln = rnd.choice([1, 1, 2, 3, 7])
            starts.append(off + len(labs))
            labs += [ln] + [rnd.choice(b"abcxyz019-") for _ in range(ln)]
        style = rnd.randrange(3)
        if style == 0:
            tgt = [starts[0]]                             # back to the head of the loop
        elif style == 1:
            tgt = [rnd.choice(starts)]                    # re-enter at any label of the loop
        else:                                             # through a second pointer: label(s), pointer -> pointer -> head
            tgt = [off + len(labs) + 2, starts[0]]
        out = list(labs)
        for t in tgt:
            out += [192 | (t >> 8), t & 255]
        return out
    base = 12 + len(q)
    a_fix = [0, 1, 0, 1, 0, 0, 0, 7, 0, 4, 10, 9, 8, 7]
    where = rnd.randrange(6)
    if where == 0:                                        # question name
        d = hdr(0x8180, 1, 1) + cyc(12) + [0, 1, 0, 1] + [192, 12] + a_fix
    elif where == 1:                                      # owner name of the first answer
        d = hdr(0x8180, 1, 1) + q + cyc(base) + a_fix
    elif where == 2:                                      # CNAME rdata
        c = cyc(base + 12)
        d = hdr(0x8180, 1, 1) + q + [192, 12, 0, 5, 0, 1, 0, 0, 0, 9, 0, len(c)] + c
    elif where == 3:                                      # inside skipped TXT rdata, entered through a later owner pointer
        c = cyc(base + 12)
        own = [192, base + 12] if rnd.randrange(2) else [1, 118, 192, base + 12]
        d = hdr(0x8180, 1, 2) + q + [192, 12, 0, 16, 0, 1, 0, 0, 0, 9, 0, len(c)] + c + own + a_fix
    elif where == 4:                                      # after good answers
        pre = [192, 12] + a_fix + [192, 12, 0, 5, 0, 1, 0, 0, 0, 60, 0, 6, 1, 100, 2, 98, 99, 0]
        d = hdr(0x8180, 1, 3) + q + pre + cyc(base + len(pre)) + a_fix
    else:                                                 # in the additional section / with an error rcode
        d = hdr(rnd.choice([0x8180, 0x8183, 0x8182]), 1, 0, 0, 1) + q + cyc(base) + a_fix
    return d, "label-cycle"


def datagram_scripts(rnd, dgrams):
    """One lookup per datagram, PER_EXEC lookups per execution; lookups that stay pending time out in the end ticks."""
    scripts = []
    for i in range(0, len(dgrams), PER_EXEC):
        n = rnd.choice([1, 2, 2, 3])
        steps = []
        for j, g in enumerate(dgrams[i:i + PER_EXEC]):
            steps.append({"o": "req"})
            steps.append({"o": "reply", "s": rnd.randrange(1, n + 1), "k": j + 1, "d": g["d"], "tag": g["tag"]})
        scripts.append({"n": n, "steps": steps, "end_ticks": 40})
    return scripts


# ------------------------------------------------------------------------------------------------ lookup scripts
def concretise(rnd, beh, pools, n=2, nested_pct=15):
    """A behaviour of Gen_DnsLookup -> driver script: each reply class gets a datagram of that class."""
    steps, nreq = [], 0
    for h in beh:
        if h["o"] == "req":
            st = {"o": "req"}
            if rnd.randrange(100) < nested_pct:           # operations issued from inside this lookup's callback
                st["nested"] = [rnd.choice([{"o": "req"}, {"o": "cancel", "k": rnd.randrange(1, 4)}, {"o": "req"}])]
            nreq += 1
            steps.append(st)
        elif h["o"] == "cancel":
            steps.append({"o": "cancel", "k": h["k"]})
        elif h["o"] == "tick":
            steps.append({"o": "tick"})
        else:
            g = rnd.choice(pools[h["cls"]])
            steps.append({"o": "reply", "s": h["s"], "k": h["k"], "d": g["d"], "tag": h["cls"] + ":" + g["tag"]})
    return {"n": n, "steps": steps, "end_ticks": 40}


def random_history(rnd, pools, length):
    n = rnd.choice([1, 2, 2, 3, 3])
    steps, nreq = [{"o": "req"}], 1
    classes = ["ok", "nxdomain", "formerr", "servfail", "servfail", "servfail", "malformed", "malformed", "notresp"]
    for _ in range(length):
        r = rnd.randrange(100)
        if r < 18 and nreq < 8:
            st = {"o": "req"}
            if rnd.randrange(100) < 20:
                st["nested"] = [rnd.choice([{"o": "req"}, {"o": "cancel", "k": rnd.randrange(1, nreq + 2)}])]
            steps.append(st)
            nreq += 1
        elif r < 28:
            steps.append({"o": "cancel", "k": rnd.randrange(1, nreq + 2)})
        elif r < 45:
            steps.append({"o": "tick"})
        else:
            cls = rnd.choice(classes)
            g = rnd.choice(pools[cls])
            st = {"o": "reply", "s": rnd.randrange(1, n + 1), "k": rnd.randrange(1, nreq + 2), "d": g["d"], "tag": cls + ":" + g["tag"]}
            steps.append(st)
            if rnd.randrange(100) < 25:                   # duplicated datagram
                steps.append(dict(st))
    return {"n": n, "steps": steps, "end_ticks": 40}


# ------------------------------------------------------------------------------------------------ running
def write_scripts(ctx, scripts, tag):
    sp = ctx.tmp(tag + ".jsonl")
    with open(sp, "w") as f:
        for s in scripts:
            f.write(json.dumps(s, separators=(",", ":")) + "\n")
    return sp


def run_scripts(ctx, exe, scripts, tag, what, replayed=True, wrapper=None, env_extra=None):
    sp = write_scripts(ctx, scripts, tag)
    tr = ctx.tmp(tag + ".ndjson")
    if os.path.exists(tr):
        os.remove(tr)
    if wrapper:
        cmd, args = wrapper[0], wrapper[1:] + [exe, "script", sp, tr]
    else:
        cmd, args = exe, ["script", sp, tr]
    env = dict(RUN_ENV)
    if wrapper:                                      # valgrind: the first steps include the translation of the code; no rlimit for valgrind itself
        env.update({"VERIF_STEP_CPU_S": "30", "VERIF_NO_RLIMIT": "1"})
    if env_extra:
        env.update(env_extra)
    ok, n = vlib.record_and_validate(ctx, cmd, args, tr, "Dns", "Trace_Dns.tla", "Trace_Dns.cfg", what, tlc_env=TLC_ENV, timeout=1500, env=env)
    if ok and replayed:
        ctx.traces_ok -= n
        ctx.replays_ok += n
    return ok, tr


def cleanup_tlc_droppings():
    # TLC writes *_TTrace_* trace-explorer files next to the spec whenever an (expected) violation is found
    d = os.path.join(vlib.SPEC, "Dns")
    for f in os.listdir(d):
        if "_TTrace_" in f:
            os.remove(os.path.join(d, f))


def models(ctx):
    try:
        models_(ctx)
    finally:
        cleanup_tlc_droppings()


def models_(ctx):
    q = ctx.quick()
    # the lookup state machine: intended design holds, each defective variant violates "its" invariant
    ctx.tlc_mc("Dns", "MC_DnsLookup.tla", "MC_DnsLookup_quick.cfg", required_actions=["NextReq", "Cancel|NextCancel", "NextReply", "NextTick|Tick"])
    ctx.tlc_mc("Dns", "MC_DnsLookup.tla", "MC_DnsLookup_lenient.cfg", coverage=False)
    ctx.tlc_mc("Dns", "MC_DnsLookup.tla", "MC_DnsLookup_live.cfg", coverage=False)
    for v, inv in (("noerase", "CallbackAtMostOnce"), ("cancelnoop", "CancelledNeverCalled"), ("failcmp_le", "AllFailedCompletes"),
                   ("firstfail", "AllFailOnlyAfterAll")):
        ctx.tlc_mc("Dns", "MC_DnsLookup.tla", "MC_DnsLookup_%s.cfg" % v, expect=inv, coverage=False)
    # the parser: fixed design is bounded / safe / exact on well-formed replies; as found it is not
    ctx.tlc_mc("Dns", "MC_DnsParse.tla", "MC_DnsParse_quick.cfg" if q else "MC_DnsParse_thorough.cfg", coverage=False, timeout=1500, env=TLC_ENV)
    ctx.tlc_mc("Dns", "MC_DnsParse.tla", "MC_DnsParse_cov.cfg", required_actions=["Header", "Sect", "NameStep", "NameEnd", "QFix", "AFix", "RData"], env=TLC_ENV)
    ctx.tlc_mc("Dns", "MC_DnsParse.tla", "MC_DnsParse_asfound_depth.cfg", expect="BoundedDepth", coverage=False, env=TLC_ENV)
    ctx.tlc_mc("Dns", "MC_DnsParse.tla", "MC_DnsParse_asfound_uninit.cfg", expect="NoUninit", coverage=False, env=TLC_ENV)
    ctx.tlc_mc("Dns", "MC_DnsParse.tla", "MC_DnsParse_resetonlabel.cfg", expect="BoundedDepth", coverage=False, env=TLC_ENV)
    ctx.tlc_mc("Dns", "MC_DnsParse.tla", "MC_DnsParse_mask10.cfg", expect="Conforms", coverage=False, env=TLC_ENV)
    ctx.tlc_mc("Dns", "MC_DnsParse.tla", "MC_DnsParse_labelbuf64.cfg", expect="NoUninit", coverage=False, env=TLC_ENV)
    if not q:
        ctx.tlc_mc("Dns", "MC_DnsParse.tla", "MC_DnsParse_asfound_safe.cfg", expect="Safe", coverage=False, env=TLC_ENV)
        ctx.tlc_mc("Dns", "MC_DnsLookup.tla", "MC_DnsLookup_thorough.cfg", coverage=False, timeout=2400)


def run(ctx):
    flags = ["-ftrivial-auto-var-init=pattern"]      # never-written locals hold 0xFE..: what is reported from them is not in the datagram
    exe = vlib.build("c15_dns", SRC, ["c15_dns/driver.cpp"], flavour="asan", defines=DEFS, extra_flags=flags)
    ctx.fault_observers = ["AddressSanitizer+UBSan on the harness build (stack overflow of unbounded recursion, out-of-bounds reads)",
                           "locals pattern-initialised (-ftrivial-auto-var-init=pattern) so values reported from unset locals fail OnlyEncoded",
                           "valgrind memcheck on a plain build (uninitialised-value use -> Fault)",
                           "terminate/signal handlers, per-step CPU-time watchdog (30 s of CPU = hang -> Fault)"]
    if ctx.replay_path:
        lines = [json.loads(x) for x in open(ctx.replay_path) if x.strip().startswith("{")]
        scripts = [e.get("script") or e.get("crowd") for e in lines if e.get("e") == "New" and ("script" in e or "crowd" in e)]
        if not scripts:
            models(ctx)
            return
        run_scripts(ctx, exe, scripts, "replay", "replay of %d recorded execution(s)" % len(scripts))
        return
    q = ctx.quick()
    rnd = random.Random(ctx.seed)
    if not os.environ.get("VERIF_C15_SKIP_MODELS"):      # development aid only (mutant runs): the models do not depend on the code
        models(ctx)

    # 1. datagrams: TLC-generated families + seeded random ones, each answered to its own lookup
    gens = ctx.tlc_gen("Dns", "Gen_DnsReply.tla", "Gen_DnsReply_quick.cfg" if q else "Gen_DnsReply_thorough.cfg", timeout=1200, env=TLC_ENV, workers=2)
    pools = {}
    for g in gens:
        pools.setdefault(g["cls"], []).append(g)
    for c in ("ok", "nxdomain", "formerr", "servfail", "malformed", "notresp"):
        if not pools.get(c):
            raise vlib.Infra("datagram generator produced no datagram of class " + c)
        pools[c].sort(key=lambda g: (g["tag"], g["d"]))
    gens.sort(key=lambda g: (g["tag"], g["d"]))
    ctx.exhaustive = True
    ctx.notes.append("datagram families from Gen_DnsReply: %d (%s)" % (len(gens), ", ".join("%s=%d" % (k, len(v)) for k, v in sorted(pools.items()))))
    ctx.sample({"kind": "generated datagram (bytes 0-1 are replaced by the id of the real query)", "datagram": gens[len(gens) // 2]})
    ok, tr = run_scripts(ctx, exe, datagram_scripts(rnd, gens), "dgrams", "%d generated datagrams" % len(gens))
    if ok:
        ev = [json.loads(x) for x in vlib.read_lines(tr, 1, 6)]
        ctx.sample({"kind": "recorded trace (first events of the datagram run)", "events": [{k: v for k, v in e.items() if k != "script"} for e in ev]})
    rd = random_datagrams(rnd, [g["d"] for g in pools["ok"]], 2400 if q else 30000)
    rd += oversize_replies(rnd, QNAME + [0, 1, 0, 1])
    run_scripts(ctx, exe, datagram_scripts(rnd, rd), "rnddgrams", "%d random / mutated datagrams" % len(rd), replayed=False)

    # 2. lookups: every script of the bounded model (BFS), a sample of the next depth, deep random ones
    behs = ctx.tlc_gen("Dns", "Gen_DnsLookup.tla", "Gen_DnsLookup_quick.cfg")
    behs.sort(key=json.dumps)
    ctx.sample({"kind": "model behaviour (lookup script) executed on the real DnsRequest", "script": behs[len(behs) // 3]})
    run_scripts(ctx, exe, [concretise(rnd, b, pools) for b in behs], "lookups3", "all %d lookup scripts of depth 3" % len(behs))
    d4 = ctx.tlc_gen("Dns", "Gen_DnsLookup.tla", "Gen_DnsLookup_d4.cfg")
    d4.sort(key=json.dumps)
    if q:
        d4 = rnd.sample(d4, 6000)
    run_scripts(ctx, exe, [concretise(rnd, b, pools) for b in d4], "lookups4", "%d lookup scripts of depth 4" % len(d4))
    hist = [random_history(rnd, pools, rnd.randrange(8, 40)) for _ in range(2000 if q else 12000)]
    run_scripts(ctx, exe, hist, "histories", "%d random histories (1-3 servers, duplicates, nested calls)" % len(hist), replayed=False)

    # 2a'. bystander: the same lookup scripts while an unrelated UdpSocket on a second event loop (own thread) receives a flood of
    # datagrams - state shared between the UdpSocket objects of a process (a static receive buffer, say) would let foreign bytes into
    # the DNS client's results.  ThreadSanitizer build: the sharing itself is reported (Fault), not only its rare visible effect.
    tsan = vlib.build("c15_dns", SRC, ["c15_dns/driver.cpp"], flavour="tsan", defines=DEFS)
    by = [concretise(rnd, b, pools) for b in (behs[::3] if q else behs)] + hist[:150 if q else 1500]
    run_scripts(ctx, tsan, by, "bystander", "%d lookup scripts / histories next to a flooded bystander socket on a second loop thread (TSan)" % len(by),
                replayed=False, env_extra={"VERIF_C15_BYSTANDER": "1", "VERIF_STEP_CPU_S": "60", "VERIF_NO_RLIMIT": "1"})
    ctx.fault_observers.append("ThreadSanitizer build for the bystander stage (second loop thread with an unrelated, flooded UdpSocket)")

    # 2b. crowds: hundreds of lookups outstanding at once (id allocation: live ids distinct, every lookup completes once)
    crowds = [crowd_script(rnd, pools, 700, "shuffled"), crowd_script(rnd, pools, 1000, "reverse")]
    if not q:
        crowds += [crowd_script(rnd, pools, 1500, "issue", n=2), crowd_script(rnd, pools, 1200, "shuffled", n=3),
                   crowd_script(rnd, pools, 600, "issue"), crowd_script(rnd, pools, 1500, "shuffled")]
    run_scripts(ctx, exe, crowds, "crowds", "%d crowds of %s simultaneous lookups" % (len(crowds), "/".join(str(len(c["steps"]) // 2) for c in crowds)),
                replayed=False)

    # 3. uninitialised reads: valgrind memcheck on a plain build, the hostile datagrams again (a subset in the quick tier)
    if shutil.which("valgrind"):
        plain = vlib.build("c15_dns", SRC, ["c15_dns/driver.cpp"], flavour="plain", defines=DEFS)
        sub = gens + rd
        if q:
            sub = [g for g in gens if g["tag"] in ("trunc", "good", "an+2", "qd=2", "ptr-out", "ptr-end", "rdlen+1", "cyc-owner", "cyc-cname", "ptr-label-loop", "large", "long-cname", "long-via-ptr")][::2] + rd[:320]
        vg = ["valgrind", "-q", "--error-exitcode=97", "--undef-value-errors=yes", "--track-origins=no", "--leak-check=no"]
        run_scripts(ctx, plain, datagram_scripts(rnd, sub) + hist[:20 if q else 300], "memcheck",
                    "valgrind memcheck: %d datagrams + histories" % len(sub), replayed=False, wrapper=vg)
    else:
        ctx.uncovered.append("valgrind not installed: uninitialised reads observed only through pattern-initialised locals")
    ctx.assumptions = [
        "well-formed (exact) class is narrow: 12-byte header, opcode 0, TC clear, one question equal to the query, complete records in all "
        "sections, class IN, labels of 1..63 host-name bytes, backward pointers, at most 4 pointers per name, nothing after the last record; "
        "for every other datagram only the statement's safety clauses are demanded",
        "timeout: a pending lookup may time out at any tick and must be resolved within 40 ticks (the tick count of the ring is a capacity, not part of the statement)",
        "duplicate server-failure replies of one server and malformed datagrams may or may not be counted as failed servers",
        "datagrams of up to 4096 bytes (UdpSocket's receive buffer) must be processed whole; longer ones (4097 .. 65000 bytes are sent) may be cut "
        "by the receiver: outcome open, but nothing may be reported that is not in the datagram and nothing behind the received bytes may be read (ASan)",
        "source address of replies is not checked by the statement",
    ]
    ctx.uncovered += ["cancel() of a lookup from inside its own callback (outside the statement's histories)",
                      "request-id wrap-around after 65535 lookups of one DnsRequest object"]
