# C13 - Terminal shell: hostile input is harmless; line editing matches a reference.
#   model:   spec/Terminal/LineEditor.tla   the reference editor + history (cap 20) + command execution
#            spec/Terminal/TelnetFraming.tla byte-level IAC machine of telnetd.cpp vs. one-shot decoding, every split
#            spec/Terminal/Session.tla       session lifetime with deferred teardown closures (NoUseOfFreed)
#   binding: spec -> code: TLC-generated key scripts (exhaustive small depth + simulated deep) typed into a real Terminal
#            (fake Connection; real Telnetd / TcpRpc on loopback); code -> spec: seeded long random editing sessions,
#            telnet token streams in every segmentation handed to the real Telnetd with a recording TerminalInteract;
#            all recorded traces validated by TLC (Trace_LineEditor / Trace_Telnet).  Hostile byte streams and command
#            lines run in the same ASan+UBSan build: a crash / uncaught exception / sanitizer report is a Fault line
#            that no spec action accepts.
import glob
import json
import os
import random
import vlib

EVENT_SRC = ["event/loop.cpp", "event/common_loop.cpp", "event/common_loop_timer.cpp", "event/common_loop_signal.cpp",
             "event/common_loop_run.cpp", "event/timer_event_impl.cpp", "event/signal_event_impl.cpp", "event/misc.cpp",
             "event/stat.cpp", "event/engines/epoll/loop.cpp", "event/engines/epoll/fd_event.cpp", "event/engines/select/loop.cpp",
             "event/engines/select/fd_event.cpp"]
NET_SRC = ["network/buffered_fd.cpp", "network/socket_fd.cpp", "network/ip_address.cpp", "network/sockaddr.cpp",
           "network/tcp_connection.cpp", "network/tcp_acceptor.cpp", "network/tcp_server.cpp"]
UTIL_SRC = ["util/string.cpp", "util/split_cmdline.cpp", "util/buffer.cpp", "util/fd.cpp", "util/fs.cpp"]
TERM_SRC = ["terminal/terminal.cpp", "terminal/session.cpp", "terminal/service/telnetd.cpp", "terminal/service/tcp_rpc.cpp",
            "terminal/impl/terminal.cpp", "terminal/impl/terminal_key_events.cpp", "terminal/impl/terminal_commands.cpp",
            "terminal/impl/terminal_nodes.cpp", "terminal/impl/key_event_scanner.cpp", "terminal/impl/dir_node.cpp",
            "terminal/impl/func_node.cpp", "terminal/impl/service/telnetd.cpp", "terminal/impl/service/tcp_rpc.cpp"]
SRC = vlib.BASE_SRC + EVENT_SRC + NET_SRC + UTIL_SRC + TERM_SRC
SPEC = "Terminal"


def build():
    return vlib.build("c13_terminal", SRC, ["c13_terminal/driver.cpp"], flavour="asan", defines=vlib.BASE_DEFS + ["HAVE_EPOLL=1"])


# ------------------------------------------------------------------------------------------------------------------
# keys and their byte encodings (each key is always delivered unsplit)
# ------------------------------------------------------------------------------------------------------------------
BS, DEL, LEFT, RIGHT, HOME, END, UP, DOWN, ENTER, ENTER_NUL, ENTER_LF, ENTER_CR, BS8 = 1, 2, 3, 4, 5, 6, 7, 8, 10, 11, 12, 13, 14
ENC = {BS: [0x7f], BS8: [0x08], DEL: [27, 91, 51, 126], LEFT: [27, 91, 68], RIGHT: [27, 91, 67], HOME: [27, 91, 49, 126],
       END: [27, 91, 52, 126], UP: [27, 91, 65], DOWN: [27, 91, 66], ENTER: [13, 10], ENTER_NUL: [13, 0], ENTER_LF: [10],
       ENTER_CR: [13]}
ENTERS = (ENTER, ENTER_NUL, ENTER_LF, ENTER_CR)
IAC, DONT, DO, WONT, WILL, SB, NOP, SE = 255, 254, 253, 252, 251, 250, 241, 240
HISTORY = [ord(c) for c in "history"]


def enc(k):
    return ENC.get(k) or [k]


def S(s):
    return [ord(c) for c in s]


def segs_of(keys, rnd, mode):
    """Byte segments for a list of keys and the keys of each segment.  mode 0: one segment per key; 1: one segment (cut only
    after a lone CR, which the scanner can only resolve at the end of a segment); 2: random cuts between keys."""
    segs, ks, cur, curk = [], [], [], []
    for i, k in enumerate(keys):
        cur += enc(k)
        curk.append(k)
        last = i == len(keys) - 1
        if last or mode == 0 or k == ENTER_CR or (mode == 2 and rnd.random() < 0.4):
            segs.append(cur)
            ks.append(curk)
            cur, curk = [], []
    return segs, ks


def chunk(keys, rnd, mode):
    segs, ks = segs_of(keys, rnd, mode)
    return {"k": ks, "segs": segs}


def chunks_of(keys, rnd, epilogue=True, maxchunk=6):
    """Split a key script into chunks (= trace events; "k" lists the keys of every segment).  An Enter that directly follows
    the text `history` is isolated in a chunk of its own so that the listing it prints can be compared."""
    keys = list(keys)
    if epilogue:
        keys += [ENTER] + HISTORY + [ENTER]
    chunks, cur = [], []

    def flush():
        if cur:
            chunks.append(chunk(cur, rnd, rnd.choice((0, 0, 1, 2))))
            del cur[:]
    want = rnd.randint(1, maxchunk)
    for i, k in enumerate(keys):
        if k in ENTERS and i >= 7 and keys[i - 7:i] == HISTORY:
            flush()
            chunks.append(chunk([k], rnd, 0))
            want = rnd.randint(1, maxchunk)
            continue
        cur.append(k)
        if len(cur) >= want:
            flush()
            want = rnd.randint(1, maxchunk)
    flush()
    return chunks


TELNET_NOISE = [[IAC, NOP], [IAC, DO, 1], [IAC, WILL, 31], [IAC, DONT, 3], [IAC, WONT, 24], [IAC, SB, 31, 0, 80, 0, 24, IAC, SE],
                [IAC, SB, 24, 0, 120, 116, 101, 114, 109, IAC, SE], [IAC, 249], [IAC, DO, 3]]


def telnet_chunks(keys, rnd, epilogue=True):
    """Like chunks_of, for the telnet front end: well-formed telnet commands are inserted between keys and the byte
    string is cut anywhere except inside a key's encoding (and a lone CR ends its text run)."""
    chunks = chunks_of(keys, rnd, epilogue)
    for ch in chunks:
        flat = [k for ks in ch["k"] for k in ks]
        if len(flat) == 1 and flat[0] in ENTERS:
            continue                       # lone Enter: the listing is compared, keep the output free of replies
        data, atom, endkey = [], [], []    # atom[i]: no cut allowed before byte i; endkey[i]: the key whose encoding ends at byte i
        for k in flat:
            if rnd.random() < 0.25:
                t = rnd.choice(TELNET_NOISE)
                data += t
                atom += [False] * len(t)
                endkey += [None] * len(t)
            e = enc(k)
            data += e
            atom += [False] + [True] * (len(e) - 1)
            endkey += [None] * (len(e) - 1) + [k]
            if k == ENTER_CR:              # a lone CR must end its text run
                data += [IAC, NOP]
                atom += [False, False]
                endkey += [None, None]
        segs, ks, cur, curk = [], [], [], []
        p = rnd.choice((0.0, 0.15, 0.5, 1.0))
        for i, b in enumerate(data):
            if cur and not atom[i] and rnd.random() < p:
                segs.append(cur)
                ks.append(curk)
                cur, curk = [], []
            cur.append(b)
            if endkey[i] is not None:
                curk.append(endkey[i])
        if cur:
            segs.append(cur)
            ks.append(curk)
        ch["segs"], ch["k"] = segs, ks
    return chunks


# ------------------------------------------------------------------------------------------------------------------
# seeded random editing sessions (alphabet without '!', digits, quotes: history references are typed atomically)
# ------------------------------------------------------------------------------------------------------------------
PLAIN = ["p x", "p y", "p z", "p x y", "p  x", "q", "pp", "p", "p xyz", " p x", "p x ", "p x;p y", "p y;q;p z", "p x;", ";p x", "p x;;p y",
         "x", "p q;p", " ", "p zz y x"]
BANGS = ["!!", "!0", "!1", "!2", "!5", "!19", "!20", "!21", "!-1", "!-2", "!-3", "!-19", "!-20", "!-21", "!9", "!-9", "!100",
         "!99999999999", "!-99999999999", "!2147483647", "!2147483648", "!-2147483648", "!-2147483649", "!4294967296",
         "!0;p y", "p x;!!", "p z;!-2;p y", "!00", "!007"]
FREE = S("pxyzq ;")


def random_session(rnd, nlines):
    keys = []
    for _ in range(nlines):
        r = rnd.random()
        if r < 0.12:
            keys += HISTORY + [rnd.choice(ENTERS[:3])]
            continue
        if r < 0.30:
            keys += S(rnd.choice(BANGS)) + [rnd.choice(ENTERS)]
            continue
        if r < 0.42:                                   # recall from the history, maybe edit, enter
            for _ in range(rnd.randint(1, 6)):
                keys.append(rnd.choice((UP, UP, UP, DOWN)))
        else:
            keys += S(rnd.choice(PLAIN)) if rnd.random() < 0.8 else [rnd.choice(FREE) for _ in range(rnd.randint(0, 8))]
        for _ in range(rnd.choice((0, 0, 1, 2, 5))):  # editing excursion
            k = rnd.choice((BS, BS8, DEL, LEFT, LEFT, RIGHT, HOME, END, UP, DOWN, 0, 0, 0))
            keys.append(k if k else rnd.choice(FREE))
        keys.append(rnd.choice(ENTERS))
    return keys


def cap_sessions():
    """History capacity boundary: n distinct stored lines, then the listing and references at both ends."""
    out = []
    for n in (19, 20, 21, 22, 45):
        keys = []
        for i in range(n):
            keys += S("p " + "xyz"[i % 3] * (1 + i // 3)) + [ENTER]
        for ref in ("history", "!0", "!19", "!20", "!-1", "!-19", "!-20", "!-21", "!!", "history"):
            keys += S(ref) + [ENTER]
        keys += [UP] * 25 + [ENTER] + [UP] * 3 + [DOWN] * 5 + [ENTER]
        out.append(keys)
    return out


def script(via, chunks, echo=0, rst=0):
    return {"via": via, "echo": echo, "rst": rst, "chunks": chunks}


def key_script(keys, rnd, via=None):
    via = via or "fake"
    if via == "telnet":
        ch = telnet_chunks(keys, rnd)
        if rnd.random() < 0.5:
            ch.insert(0, {"k": [[]], "segs": [[IAC, DO, 1]]})      # ask the server to echo
        return script(via, ch, rst=rnd.randint(0, 1))
    ch = chunks_of(keys, rnd)
    if via == "rpc":
        pass                                                       # raw TCP: cuts between keys only, as chunks_of makes them
    return script(via, ch, echo=rnd.randint(0, 1), rst=rnd.randint(0, 1))


# ------------------------------------------------------------------------------------------------------------------
# hostile input: only "no Fault" is demanded
# ------------------------------------------------------------------------------------------------------------------
HOSTILE_LINES = ["!", "!!", "!-", "!+1", "!1x", "!99999999999999999999", "!-99999999999999999999", "!2147483648", "!-2147483648",
                 "! 1", "!!;!!;!!", "p \"abc", "p 'a b' \"c d\" e", "p 'x", "p a\"b c\"d", "\"", "''", "ls", "ls d", "ls d/e/back/e/root/d",
                 "ls d/x", "ls d/f", "ls nosuch", "cd d/e", "cd d/e/back/e/back", "cd ..", "cd", "cd d/f", "cd d/x", "pwd", "tree", "tree d",
                 "tree d/f", "tree d/x", "tree /", "help", "help p", "help d/x", "help nosuch", "d", "d/e", "d/f 1 2 3", "d/x", "/", "..", ".",
                 "//", "d//e", "history 5", "exit now", "quit", "p " + "x" * 3000, ";" * 200, "p x;" * 100, " " * 50, "\t\t", "p\tx",
                 "ls d/x/y", "cd d/x/y", "tree d/x/y", "help d/x/y", "d/x/y 1", "ls d/x/", "cd d/e/back/x/y/z", "ls d/x/../x/y",  # THROUGH the dangling mount
                 "!0" * 30, "history;history", "cd d/e;tree;ls;pwd;cd ..;tree ..;help ../..", "cd d;e;back;e;root;d;tree /"]


def hostile_scripts(rnd, n, vias):
    out = []
    pool = [27, 91, 79, 13, 10, 0, 9, 8, 0x7f, 0xc2, IAC, SB, SE, DO, WILL, NOP, 31, 1, 33, 45, 48, 57, 59, 34, 39, 32, 112, 126, 49, 50,
            51, 52, 53, 54, 65, 66, 67, 68]
    for i in range(n):
        via = vias[i % len(vias)]
        chunks = []
        for _ in range(rnd.randint(1, 4)):
            kind = rnd.random()
            if kind < 0.45:       # command lines with hostile arguments, typed and entered
                data = []
                for _ in range(rnd.randint(1, 5)):
                    data += S(rnd.choice(HOSTILE_LINES)) + rnd.choice(([13, 10], [10], [13, 0]))
                if rnd.random() < 0.3:
                    data += S("exit") + [13, 10]
            elif kind < 0.8:      # byte soup biased towards escape / telnet / control bytes
                data = [rnd.choice(pool) if rnd.random() < 0.8 else rnd.randrange(256) for _ in range(rnd.randint(1, 120))]
            else:                 # truncated / nested escape and telnet sequences
                data = []
                for _ in range(rnd.randint(1, 12)):
                    data += rnd.choice(([27], [27, 91], [27, 91, 49], [27, 91, 50, 52], [27, 79], [0xc2], [13], [IAC], [IAC, SB],
                                        [IAC, SB, 31], [IAC, SB, 31, 1, IAC], [IAC, SB, 31, 1, IAC, SE], [IAC, SB, 31, 1, 2, 3, IAC, SE],
                                        [IAC, SB, 31, IAC, SE], [IAC, DO], [IAC, IAC], [IAC, SE], [IAC, SB, IAC, IAC, SE], S("p x")))
            p = rnd.choice((0.0, 0.1, 0.5, 1.0))
            segs, cur = [], []
            for b in data:
                if cur and rnd.random() < p:
                    segs.append(cur)
                    cur = []
                cur.append(b)
            if cur:
                segs.append(cur)
            chunks.append({"k": [[] for _ in segs], "segs": segs, "hostile": 1})
        out.append(script(via, chunks, echo=rnd.randint(0, 1), rst=rnd.randint(0, 1)))
    return out


def exit_scripts(rnd):
    """Pipelined / repeated exit, exit followed by more input or by the peer closing, on every front end."""
    out = []
    ex = S("exit")
    for via in ("fake", "telnet", "rpc"):
        for pat in ([ex + [ENTER]], [ex + [ENTER] + ex + [ENTER]], [ex + S(";") + ex + [ENTER]], [S("quit;exit;quit") + [ENTER_LF]],
                    [S("p x") + [ENTER] + ex + [ENTER] + S("p y") + [ENTER]], [ex + [ENTER], S("p y") + [ENTER]],
                    [ex + [ENTER], ex + [ENTER]], [S("p x;exit;p y") + [ENTER], ex + [ENTER] + ex + [ENTER]]):
            for mode in (0, 1):
                chunks = [chunk(k, rnd, mode) for k in pat]
                out.append(script(via, chunks, echo=rnd.randint(0, 1), rst=rnd.randint(0, 1)))
        if via != "fake":
            # more bytes arrive after the session has ended but before the connection is closed: the last segment is written
            # from inside the loop, `late` passes after the pass in which the server read the segment with the exit command
            lates = [S("p y") + [ENTER], S("p y") + [ENTER_LF] + ex + [ENTER], [UP, ENTER], S("x")]
            for late in (0, 1, 2, 3):
                for first in (ex + [ENTER], S("p x;") + ex + [ENTER_LF], S("quit") + [ENTER] + S("p z") + [ENTER], ex + S(";") + ex + [ENTER]):
                    for lk in lates:
                        ch = {"k": [first, lk], "segs": [[b for k in first for b in enc(k)], [b for k in lk for b in enc(k)]], "late": late}
                        out.append(script(via, [ch], echo=rnd.randint(0, 1), rst=rnd.randint(0, 1)))
                    if via == "telnet":     # the late bytes are telnet commands (negotiation, sub-negotiation, two-byte command)
                        for raw, lk in (([IAC, DO, 1], []), ([IAC, SB, 31, 0, 80, 0, 24, IAC, SE], []), ([IAC, NOP], []),
                                        ([IAC, DONT, 3] + S("p y") + [13, 10], S("p y") + [ENTER])):
                            ch = {"k": [first, lk], "segs": [[b for k in first for b in enc(k)], raw], "late": late}
                            out.append(script(via, [ch], rst=rnd.randint(0, 1)))
            # exit and the peer's close arrive in the same loop pass
            for data in (ex + [13, 10], ex + [13, 10] + ex + [13, 10], S("p x;exit") + [10]):
                for rst in (0, 1):
                    out.append(script(via, [{"k": [[]], "segs": [data], "hostile": 1, "nopump": 1}], rst=rst))
    return out


# ------------------------------------------------------------------------------------------------------------------
# telnet token streams for the framing check (real Telnetd + recording TerminalInteract)
# ------------------------------------------------------------------------------------------------------------------
TOKS = [[97], [97, 13, 10], S("p x") + [13, 10], [IAC, NOP], [IAC, DO, 1], [IAC, WILL, 31], [IAC, DONT, 3], [IAC, SB, 31, 0, 80, 0, 24, IAC, SE],
        [IAC, SB, 31, 1, 44, 0, 50, IAC, SE], [IAC, SB, 24, 120, IAC, SE], [IAC, SB, 24, 0, 118, 116, 49, 48, 48, IAC, SE],
        [IAC, SB, 31, 7, IAC, SE], [IAC, SB, 31, 1, 2, IAC, SE], [IAC, SB, 31, 1, 2, 3, IAC, SE], [IAC, SB, 31, 1, 2, 3, 4, 5, IAC, SE],
        [IAC], [IAC, SB], [IAC, SB, 31, 0], [IAC, DO], [IAC, IAC], [SE], [IAC, SB, 31, IAC, SE], [27, 91, 65], [0, 1, 2, 254, 128]]


def framing_scripts(rnd, quick):
    streams = [list(t) for t in TOKS] + [a + b for a in TOKS for b in TOKS]
    more = 300 if quick else 1500
    for _ in range(more):
        streams.append([x for _ in range(rnd.randint(3, 5)) for x in rnd.choice(TOKS)])
    if quick:
        streams = streams[:len(TOKS)] + rnd.sample(streams[len(TOKS):], 500)
    out = []

    def add(data, cuts):
        segs, last = [], 0
        for c in sorted(set(cuts)) + [len(data)]:
            if c > last:
                segs.append(data[last:c])
                last = c
        out.append(script("framing", [{"k": [[] for _ in segs], "segs": segs}], rst=int(rnd.random() < 0.7)))
    for d in streams:
        n = len(d)
        add(d, [])                                   # unsplit
        if n > 1:
            add(d, range(1, n))                      # byte by byte
            if quick:
                for _ in range(2):
                    add(d, [rnd.randint(1, n - 1)])
            else:
                for c in range(1, n):                # every two-part split
                    add(d, [c])
            for _ in range(2 if quick else 4):
                add(d, [c for c in range(1, n) if rnd.random() < 0.3])
    return out


# ------------------------------------------------------------------------------------------------------------------
# running and validating
# ------------------------------------------------------------------------------------------------------------------
def run_and_validate(ctx, exe, scripts, tag, tla, cfg, what, replayed=False):
    """Execute scripts with the driver, validate the recorded trace with TLC.  A rejected trace or a dead driver is a
    violation; the replay file holds the script of the failing execution (first line) and its recorded events."""
    sp, tr = ctx.tmp(tag + ".jsonl"), ctx.tmp(tag + ".ndjson")
    with open(sp, "w") as f:
        for s in scripts:
            f.write(json.dumps(s, separators=(",", ":")) + "\n")
    if os.path.exists(tr):
        os.remove(tr)
    rc, out = vlib.run_harness(exe, ["run", sp, tr], timeout=900)
    if rc == 124 or rc == 3:
        raise vlib.Infra("harness problem rc=%d (%s)\n%s" % (rc, what, out[-2000:]))
    if not os.path.exists(tr):
        raise vlib.Infra("harness wrote no trace (%s) rc=%d\n%s" % (what, rc, out[-2000:]))
    n_exec = vlib.count_execs(tr)
    fault = None
    if rc != 0:
        key = [ln.strip() for ln in out.splitlines() if "ERROR: AddressSanitizer" in ln or "runtime error:" in ln or
               ln.startswith("SUMMARY:") or "FAULT kind=" in ln or "terminate called" in ln or "what():" in ln]
        fault = "driver exit %d: %s" % (rc, " / ".join(key[:4])[:900] if key else out[-900:])
        with open(tr, "a") as f:
            f.write('\n{"e":"Fault","kind":"exit","what":"rc=%d"}\n' % rc)
    elif "FAULT kind=" in out:
        fault = out[out.index("FAULT kind="):][:1500]
    ok, info = ctx.tlc_trace(SPEC, tla, cfg, tr, n_exec, what=what)
    if ok and not fault:
        if replayed:
            ctx.traces_ok -= n_exec
            ctx.replays_ok += n_exec
        return True
    pos = (info.get("maxpos") or 1) if not ok else sum(1 for _ in open(tr))
    lines, rel = vlib.execution_around(tr, pos)
    nxt = lines[rel - 1] if rel - 1 < len(lines) else "(end of trace)"
    idx = None
    for ln in lines:
        if ln.startswith("{") and '"idx"' in ln:
            try:
                idx = json.loads(ln).get("idx")
            except ValueError:
                pass
            break
    if idx is None and fault:          # died before the Begin line of the next execution was written
        idx = min(n_exec, len(scripts) - 1)
    head = json.dumps({"script": scripts[idx]} if idx is not None and idx < len(scripts) else {"script": None}, separators=(",", ":"))
    replay = ctx.save_replay(tag, head + "\n" + "\n".join(lines) + "\n")
    msg = "%s: trace rejected at line %d of the execution (%s); first unmatched line: %s" % (
        what, rel, ("invariant " + str(info.get("violated"))) if (not ok and info.get("violated")) else "no spec action matches", nxt[:300])
    if fault:
        msg += " | " + fault
    ctx.violation(msg, replay)
    return False


def editor(ctx, exe, scripts, tag, what, replayed=False):
    return run_and_validate(ctx, exe, scripts, tag, "Trace_LineEditor.tla", "Trace_LineEditor.cfg", what, replayed)


def cleanup_tlc_droppings():
    for p in glob.glob(os.path.join(vlib.SPEC, SPEC, "*_TTrace_*")):
        try:
            os.remove(p)
        except OSError:
            pass


def run(ctx):
    try:
        _run(ctx)
    finally:
        cleanup_tlc_droppings()


def _run(ctx):
    exe = build()
    rnd = random.Random(ctx.seed)
    quick = ctx.quick()
    ctx.fault_observers = ["AddressSanitizer+UBSan on the harness build (Terminal, Telnetd, TcpRpc, network, event loop)",
                           "terminate / SIGSEGV / SIGABRT handlers (uncaught exception, null dereference, assertion)"]
    if ctx.replay_path:
        first = open(ctx.replay_path).readline()
        sc = json.loads(first).get("script")
        if not sc:
            raise vlib.Infra("replay file has no script line")
        if sc.get("via") == "framing":
            run_and_validate(ctx, exe, [sc], "replay", "Trace_Telnet.tla", "Trace_Telnet.cfg", "replay")
        else:
            editor(ctx, exe, [sc], "replay", "replay")
        return

    # 0. the telnet framing machine and the session lifetime at design level
    ctx.tlc_mc(SPEC, "MC_TelnetFraming.tla", "MC_telnet.cfg", required_actions=["Recv"])
    if not quick:
        ctx.tlc_mc(SPEC, "MC_TelnetFraming.tla", "MC_telnet3.cfg", coverage=False)
    ctx.tlc_mc(SPEC, "MC_TelnetFraming.tla", "MC_telnet_asfound.cfg", expect="NoReadBeyondData", coverage=False)
    ctx.tlc_mc(SPEC, "Session.tla", "MC_session.cfg", required_actions=["Connect", "ExitCmd", "PeerClose", "RunClosure"])
    ctx.tlc_mc(SPEC, "Session.tla", "MC_session_asfound.cfg", expect="NoUseOfFreed", coverage=False)

    # 1. the reference itself: independent ghost formulations of the statement hold on the bounded model
    # vacuity guard: some behaviour of the bounded model takes every action (NotAllSeen is expected to be violated;
    # TLC's own -coverage costs ~20 s of start-up on this module, so the actions are collected in a ghost variable)
    ctx.tlc_mc(SPEC, "MC_LineEditor_cov.tla", "MC_cov.cfg", expect="NotAllSeen", coverage=False, simulate=(100000, 80), timeout=120)
    ctx.tlc_mc(SPEC, "MC_LineEditor_cmds.tla", "MC_cmds4.cfg" if quick else "MC_cmds_full.cfg", coverage=False)
    ctx.tlc_mc(SPEC, "MC_LineEditor_cmds.tla", "MC_edit_quick.cfg" if quick else "MC_edit.cfg", coverage=False)
    ctx.tlc_mc(SPEC, "MC_LineEditor_cmds.tla", "MC_asfound.cfg", expect="NoFault", coverage=False)

    # 2. spec -> code: every key script of the bounded model, typed into a real Terminal
    behs = sorted(ctx.tlc_gen(SPEC, "Gen_LineEditor.tla", "Gen_edit3.cfg" if quick else "Gen_edit4.cfg"))
    ctx.exhaustive = True
    ctx.notes.append("editing scripts (4 prefixes x every key sequence of depth %d over {x, blank, 9 editing keys, Enter}): %d"
                     % (3 if quick else 4, len(behs)))
    ctx.sample({"kind": "model key script typed into the real Terminal", "keys": behs[len(behs) // 2]})
    editor(ctx, exe, [key_script(k, rnd) for k in behs], "gen_edit", "replay of %d editing scripts" % len(behs), replayed=True)
    behs = sorted(ctx.tlc_gen(SPEC, "Gen_LineEditor.tla", "Gen_cmds2.cfg" if quick else "Gen_cmds3.cfg"))
    ctx.notes.append("command scripts (3 prefixes x every sequence of %d lines over 21 command lines + Up/Down/Enter): %d"
                     % (2 if quick else 3, len(behs)))
    ctx.sample({"kind": "model command script", "keys": behs[len(behs) // 3]})
    editor(ctx, exe, [key_script(k, rnd, ("fake", "fake", "telnet", "rpc")[i % 4]) for i, k in enumerate(behs)], "gen_cmds",
           "replay of %d command scripts (fake / telnet / rpc front ends)" % len(behs), replayed=True)
    vias = ["fake", "fake", "telnet", "rpc"]

    # 3. code -> spec: long random editing sessions on all front ends, exit patterns
    nsess = 400 if quick else 4000
    sess = [key_script(random_session(rnd, rnd.randint(5, 70)), rnd, vias[i % 4]) for i in range(nsess)]
    sess += [key_script(k, rnd, vias[i % 4]) for i, k in enumerate(cap_sessions())]
    sess += exit_scripts(rnd)
    editor(ctx, exe, sess, "random", "%d random editing sessions + capacity boundary + exit patterns" % len(sess))
    ctx.sample({"kind": "recorded session (first events)", "events": [json.loads(x) for x in vlib.read_lines(ctx.tmp("random.ndjson"), 1, 3)]})

    # 4. hostile input: arbitrary bytes / arguments in any segmentation on every front end
    host = hostile_scripts(rnd, 400 if quick else 6000, ["fake", "telnet", "rpc", "telnet", "rpc"])
    editor(ctx, exe, host, "hostile", "%d hostile byte streams / command lines" % len(host))

    # 5. telnet framing: token streams in many segmentations handed to the real Telnetd (recording TerminalInteract)
    fr = framing_scripts(rnd, quick)
    run_and_validate(ctx, exe, fr, "framing", "Trace_Telnet.tla", "Trace_Telnet.cfg",
                     "%d telnet token streams x segmentations (unsplit, byte by byte, two-part, random)" % len(fr))
    ctx.sample({"kind": "telnet stream as recorded", "event": json.loads(vlib.read_lines(ctx.tmp("framing.ndjson"), 1, 1)[0])})

    ctx.assumptions = [
        "each key's byte encoding is delivered unsplit (statement); Enter is CR LF, CR NUL, LF, or a lone CR that ends its segment / text run",
        "which lines are stored is the reference's policy (spec/Terminal/LineEditor.tla): a line that ran to its end is stored (after a "
        "history reference: the re-run text); `history`, a failed reference and a line with an empty ';' piece are not",
        "an error report is recognised as the word 'error' (any case) in the bytes sent back, a prompt as '# ', the history listing as "
        "lines '<index><2 blanks><text>CRLF'; echo bytes are not compared",
        "after every input segment the loop is run until the connection is quiet, so a deferred session teardown has happened before the "
        "next segment (pass counts themselves are not compared)",
        "telnet streams are compared with the one-shot decoding only inside the well-formed language (no IAC IAC, sub-negotiations with at "
        "least one data byte ended by IAC SE, command bytes 241..254); window sizes only when every NAWS carries exactly 4 bytes",
    ]
    ctx.uncovered = [
        "argument quoting (' and \") and the built-ins ls/cd/pwd/tree/help (any node tree: here one tree with a cycle, a function and a deleted "
        "node) are executed only under the no-Fault oracle; their output is not compared with a reference",
        "history references whose argument is not an integer ('!1x', '!+1', '! 1') are outside the statement's quantifier: no-Fault only",
        "'corrupt memory' is observed by ASan/UBSan (with the pool-poisoning hook) on the executed inputs, not proven for all inputs",
        "the stdio front end (service/stdio.cpp) and Tab are not exercised",
    ]
