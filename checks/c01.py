# C01 - Loop runs every deferred task exactly once, on the loop thread, in order.
#   model:   spec/Loop/DeferredTasks.tla (loop thread: start / pass / exit / shutdown drain / re-run / destroy, task bodies that
#            submit, cancel and exit; foreign threads submitting through runInLoop) over the data actions of DeferredData.tla;
#            safety (at most once, cancelled never runs, FIFO per submitter and entry point, loop thread only, no lost wake-up,
#            nothing dropped at destruction) and liveness (a cross-thread submission is picked up without anything else having to
#            happen); as-found switch (wake-up request flag survives loop stop) must violate ReqConsistent / WakeupDelivered.
#   binding: hook points in the loop's critical sections + events logged by the submitted callables, ordered by a global sequence
#            number, validated by TLC against the same data actions (Trace_Deferred.tla); gated scenarios for the start-up,
#            exit-pass and shutdown-drain windows; seeded random scripts (1-3 runs of the loop, 0-3 foreign threads, task bodies
#            that submit / cancel / exit, both back-ends) with perturbed schedules under ThreadSanitizer and ASan.
import json
import os
import vlib

SRC = vlib.BASE_SRC + vlib.EVENT_SRC
DEFS = vlib.BASE_DEFS + vlib.EVENT_DEFS


def validate(ctx, exe, args, trace, what):
    return vlib.record_and_validate(ctx, exe, args, trace, "Loop", "Trace_Deferred.tla", "Trace_Deferred.cfg", what, timeout=300 if ctx.quick() else 2400)


def run(ctx):
    asan = vlib.build("c01_loop", SRC, ["c01_loop/driver.cpp"], flavour="asan", defines=DEFS)
    tsan = vlib.build("c01_loop", SRC, ["c01_loop/driver.cpp"], flavour="tsan", defines=DEFS)
    ctx.fault_observers = ["ThreadSanitizer on the recording harness (data races)", "ASan+UBSan build for the gated scenarios",
                           "watchdog on runLoop() / destruction (a loop that never wakes = Fault)"]
    if ctx.replay_path:
        first = open(ctx.replay_path).readline()
        tr = ctx.tmp("replay.ndjson")
        if '"rounds"' in first:
            validate(ctx, asan, ["script", ctx.replay_path, tr], tr, "replay of script")
        else:
            open(tr, "w").write(open(ctx.replay_path).read())
            ok, info = ctx.tlc_trace("Loop", "Trace_Deferred.tla", "Trace_Deferred.cfg", tr, 1, what="replay of recorded events")
            if not ok:
                ctx.violation("recorded execution is rejected by the specification", ctx.replay_path)
        return
    acts = ["FSubmit", "MPreNext", "MPreIn", "MStart1", "MStart2", "MPoll", "MSwapIn", "MSwapNext", "MExec", "MPhaseEnd", "MPassEnd",
            "MBodyNext", "MBodyIn", "MBodyCancel", "MBodyExit", "MAfterLock", "MDrainGen", "MDrainExec", "MAfterClose", "MDestroyBegin",
            "MDestroyEnd"]
    ctx.tlc_mc("Loop", "MC_Deferred.tla", "MC_a.cfg", required_actions=acts)
    ctx.tlc_mc("Loop", "MC_Deferred.tla", "MC_a_live.cfg", coverage=False)
    ctx.tlc_mc("Loop", "MC_Deferred.tla", "MC_af.cfg", expect="ReqConsistent", coverage=False)
    ctx.tlc_mc("Loop", "MC_Deferred.tla", "MC_af_live.cfg", expect="WakeupDelivered", coverage=False)
    if not ctx.quick():
        ctx.tlc_mc("Loop", "MC_Deferred.tla", "MC_b.cfg", coverage=False, timeout=2400)
    sc = os.path.join(vlib.HARNESS, "c01_loop", "scenarios.jsonl")
    tr = ctx.tmp("scenarios.ndjson")
    validate(ctx, asan, ["script", sc, tr], tr, "gated scenarios")
    ctx.sample({"kind": "gated scenario", "script": json.loads(open(sc).readline())})
    n_tsan, n_asan = (400, 150) if ctx.quick() else (6000, 2000)
    tr = ctx.tmp("random_tsan.ndjson")
    validate(ctx, tsan, ["random", ctx.seed, n_tsan, tr], tr, "random histories (TSan build)")
    ctx.sample({"kind": "recorded events", "events": [json.loads(x) for x in vlib.read_lines(tr, 1, 14)]})
    tr = ctx.tmp("random_asan.ndjson")
    validate(ctx, asan, ["random", ctx.seed + 7919, n_asan, tr], tr, "random histories (ASan build)")
    ctx.assumptions = ["foreign threads use the thread-safe entry point runInLoop() only; runNext()/run()/cancel() are called from the thread "
                       "that owns the loop (the class's contract)",
                       "the loop is destroyed only after all foreign threads have finished",
                       "a run of the loop that does not return within the watchdog (20 s; 6 s in the scenarios) is reported as a lost wake-up"]
    ctx.uncovered = ["runLoop() called from inside a callback of the same loop (nested loops)", "execution of the library's own deferred tasks (freeing a finished timer) is presumed, not observed"]
