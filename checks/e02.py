# E02 (extension) - tbox::eventx::RequestPool with its TimeoutMonitor: tokens of outstanding requests, removal on response,
#                   the timeout action exactly once per request that was not removed in time, nothing after cleanup.
#   model:   spec/RequestPool/RequestPool.tla - one action per public call, per pass boundary, per tick of the monitor's timer and
#            per token a tick reports (virtual clock; the ring of check_times slots; nested calls from inside the timeout action);
#            ghost-state invariants ExactlyOnce, NoLoss, NotEarly, NotLate, MonitorConsistent, NothingAfterCleanup, ... -- TLC
#            exhaustive on small scopes; AF_cleanup_in_cb.cfg (cleanup() inside the action, as found) MUST violate NoCallAfterCleanup.
#   binding: spec -> code: TRANSITION COVERAGE of a small model (every user operation from every reachable model state, reached by
#            its shortest operation sequence) + random deep model behaviours, turned into scripts;
#            code -> spec: seeded random scripts (intervals 1..100 ms, rings of 1..10 slots, late passes, nested calls, re-initialise).
#            All scripts run on a real RequestPool on a real Loop under the virtual clock hook, driven pass by pass from inside the
#            loop; every recorded line (answers, virtual time, live contexts) is validated by TLC against Trace_RequestPool.tla.
import concurrent.futures as cf
import copy
import json
import os
import random
import vlib

SRC = vlib.BASE_SRC + vlib.EVENT_SRC
DEFS = vlib.BASE_DEFS + vlib.EVENT_DEFS
ACTIONS = ["Initialize", "SetAction", "NNewRequest", "NUpdateRequest", "NRemoveRequest", "Cleanup", "NAdvance", "PassBegin", "Tick", "Skip",
           "NTimeout", "CbEnd", "PassEnd"]
TAIL = [{"o": "pass"}, {"o": "adv", "d": 1}, {"o": "pass"}, {"o": "adv", "d": 7}, {"o": "pass"}]
CHUNK = 14000       # scripts per trace file (the validation of one file is one long TLC behaviour)


def fork(ctx, name):
    """Independent TLC/driver jobs run side by side; each gets its own scratch directory and counters (summed in join)."""
    c = copy.copy(ctx)
    c.work = os.path.join(ctx.work, name)
    os.makedirs(c.work, exist_ok=True)
    c.states = c.transitions = c.traces_ok = c.replays_ok = 0
    c._n = 0
    c.actions = {}
    c.mc_runs = []
    return c


def join(ctx, subs):
    for c in subs:
        ctx.states += c.states
        ctx.transitions += c.transitions
        ctx.traces_ok += c.traces_ok
        ctx.replays_ok += c.replays_ok
        ctx.mc_runs += c.mc_runs


def op_of(h):
    o = h["o"]
    if o == "init":
        return {"o": "init", "i": h["a"], "n": h["b"]}
    if o == "setaction":
        return {"o": "setaction", "k": "action" if h["a"] == 1 else "cb"}
    if o == "new":
        return {"o": "new", "c": h["a"] == 1}
    if o in ("update", "remove"):
        return {"o": o, "r": h["a"]}
    if o == "adv":
        return {"o": "adv", "d": h["a"]}
    return {"o": o}


def script_of(hist, tail=True):
    top, cb = [], {}
    for h in hist:
        if h["cb"]:
            cb.setdefault(str(h["cb"]), []).append(op_of(h))
        else:
            top.append(op_of(h))
    return {"top": top + (TAIL if tail else []), "cb": cb}


def script_of_trace(lines):
    """replay: rebuild the script from a recorded execution"""
    top, cb, k = [], {}, 0
    for x in lines:
        x = x.strip()
        if not x.startswith("{"):
            continue
        e = json.loads(x)
        o = e["e"]
        if o == "timeout":
            k += 1
            continue
        if o in ("Reset", "Fault", "cbend", "passend", "cleanup", "destroy", "destroy_begin"):
            continue
        op = {"init": lambda: {"o": "init", "i": e["i"], "n": e["n"]}, "setaction": lambda: {"o": "setaction", "k": e["k"]},
              "new": lambda: {"o": "new", "c": e["c"] != 0}, "update": lambda: {"o": "update", "r": e["r"]},
              "remove": lambda: {"o": "remove", "r": e["r"]}, "adv": lambda: {"o": "adv", "d": e["d"]}, "pass": lambda: {"o": "pass"},
              "cleanup_begin": lambda: {"o": "cleanup"}}[o]()
        if e.get("cb", 0) > 0:
            cb.setdefault(str(k), []).append(op)
        else:
            top.append(op)
    return {"top": top + TAIL, "cb": cb}


def rand_script(rnd):
    i = rnd.choice([1, 1, 2, 2, 3, 5, 10, 100])
    n = rnd.choice([1, 2, 2, 3, 3, 4, 10])
    top = []
    pre = rnd.random() < 0.15
    act = {"o": "setaction", "k": "action" if rnd.random() < 0.85 else "cb"}
    if pre:
        top.append(act)
    if rnd.random() < 0.1:
        top.append({"o": "init", "i": i, "n": rnd.choice([0, -1])})       # refused
    top.append({"o": "init", "i": i, "n": n})
    if not pre and rnd.random() < 0.93:
        top.append(act)
    nreq = 0

    def adv():
        return rnd.choice([1, 1, max(1, i - 1), i, i + 1, i * n, max(1, i * n - 1), i * n + 1, rnd.randint(1, 3 * i * n)])

    def user_op(in_cb):
        nonlocal nreq
        x = rnd.random()
        if x < 0.5:
            nreq += 1
            return {"o": "new", "c": rnd.random() < 0.85}
        if x < 0.8:
            return {"o": "remove", "r": rnd.randint(1, nreq + 1)}
        if x < 0.95:
            return {"o": "update", "r": rnd.randint(1, nreq + 1)}
        return {"o": "cleanup"} if (in_cb and rnd.random() < 0.5) else {"o": "remove", "r": rnd.randint(1, nreq + 1)}

    for _ in range(rnd.randint(8, 40)):
        x = rnd.random()
        if x < 0.40:
            top.append(user_op(False))
        elif x < 0.62:
            top.append({"o": "adv", "d": adv()})
        elif x < 0.90:
            top.append({"o": "pass"})
        elif x < 0.93:
            top.append({"o": "setaction", "k": "action" if rnd.random() < 0.8 else "cb"})
        elif x < 0.96:
            top.append({"o": "cleanup"})
            if rnd.random() < 0.8:
                i2, n2 = rnd.choice([1, 2, 3]), rnd.choice([1, 2, 3])
                top += [{"o": "init", "i": i2, "n": n2}, {"o": "setaction", "k": "action"}]
                i, n = i2, n2
        else:
            top += [{"o": "adv", "d": i * n}, {"o": "pass"}]
    cb = {}
    for k in range(1, 12):
        if rnd.random() < 0.35:
            cb[str(k)] = [user_op(True) for _ in range(rnd.randint(1, 3))]
    return {"top": top + [{"o": "pass"}, {"o": "adv", "d": i * n}, {"o": "pass"}, {"o": "adv", "d": i * n + 1}, {"o": "pass"}], "cb": cb}


def validate_scripts(ctx, exe, scripts, tag, kind):
    """run the scripts in chunks (one trace file each) and validate every file"""
    ok_all = True
    for ci in range(0, len(scripts), CHUNK):
        part = scripts[ci:ci + CHUNK]
        t = "%s%d" % (tag, ci // CHUNK)
        sp, tr = ctx.tmp(t + ".jsonl"), ctx.tmp(t + ".ndjson")
        with open(sp, "w") as f:
            for s in part:
                f.write(json.dumps(s) + "\n")
        ok, n = vlib.record_and_validate(ctx, exe, ["run", sp, tr], tr, "RequestPool", "Trace_RequestPool.tla", "Trace_RequestPool.cfg",
                                         "%d %s (%s)" % (len(part), "model behaviours on the real pool" if kind == "replay" else "random scripts", t))
        if ok and kind == "replay":
            ctx.traces_ok -= n
            ctx.replays_ok += n
        ok_all = ok_all and ok
    return ok_all


def run(ctx):
    exe = vlib.build("e02_requestpool", SRC, ["e02_requestpool/driver.cpp"], flavour="asan", defines=DEFS)
    ctx.fault_observers = ["AddressSanitizer+UBSan on the harness build (contexts deleted twice / used after the pool deleted them)",
                           "terminate/signal handlers (TBOX_ASSERT is active in the harness build; std::bad_function_call)"]
    ctx.assumptions = ["check_interval >= 1 ms (with 0 the loop's persistent timer would re-fire without end)",
                       "initialize() is called on a pool that is not initialised (a second initialize() without cleanup() leaks the ring); "
                       "newRequest() only on an initialised pool; the pool is not destroyed from inside its timeout action (asserted by the class)",
                       "the clock does not move during a loop pass (the loop samples it once per pass); setTimeoutAction() is not called from "
                       "inside the action",
                       "single-threaded use on the loop's thread"]
    ctx.uncovered = ["wrap-around of the cabinet's token id counter (2^64 requests)", "allocation failure"]
    if ctx.replay_path:
        validate_scripts(ctx, exe, [script_of_trace(open(ctx.replay_path).read().splitlines())], "replay", "replay")
        return
    # 1. the design
    ctx.tlc_mc("RequestPool", "RequestPool.tla", "MC_cov.cfg", required_actions=ACTIONS)
    ctx.tlc_mc("RequestPool", "RequestPool.tla", "MC_quick.cfg", coverage=False)
    ctx.tlc_mc("RequestPool", "RequestPool.tla", "MC_ring3.cfg", coverage=False)
    ctx.tlc_mc("RequestPool", "RequestPool.tla", "AF_cleanup_in_cb.cfg", expect="NoCallAfterCleanup", coverage=False, workers=1)
    if not ctx.quick():
        ctx.tlc_mc("RequestPool", "RequestPool.tla", "MC_thorough.cfg", coverage=False, timeout=3000)

    # 2. spec -> code
    behs = ctx.tlc_gen("RequestPool", "Gen_RequestPool.tla", "Gen_trans.cfg", workers=1)
    trans = [script_of(b) for b in behs]
    trans.sort(key=lambda s: json.dumps(s, sort_keys=True))
    ctx.notes.append("Gen_trans: %d user-operation transitions of the bounded model, each executed after the shortest script reaching "
                     "its source state" % len(trans))
    ctx.sample({"kind": "model transition turned into a script and executed on the real pool", "script": trans[len(trans) // 2]})
    deep = ctx.tlc_gen("RequestPool", "Gen_RequestPool.tla", "Gen_sim.cfg", simulate=(75 if ctx.quick() else 600, 400), timeout=600, workers=1)
    deeps = [script_of(b) for b in deep]
    deeps.sort(key=lambda s: json.dumps(s, sort_keys=True))
    ctx.sample({"kind": "random deep model behaviour as a script", "script": deeps[0]})
    # 3. code -> spec
    rnd = random.Random(ctx.seed)
    rs = [rand_script(rnd) for _ in range(3000 if ctx.quick() else 20000)]
    ctx.sample({"kind": "seeded random script", "script": rs[0]})

    nt = 3
    jobs = [("t%d" % k, trans[k::nt], "trans%d_" % k, "replay") for k in range(nt)] + [("deep", deeps, "deep", "replay"), ("random", rs, "random", "trace")]
    subs = [fork(ctx, j[0]) for j in jobs]
    err = None
    with cf.ThreadPoolExecutor(max_workers=4) as ex:
        futs = [ex.submit(validate_scripts, c, exe, j[1], j[2], j[3]) for j, c in zip(jobs, subs)]
        for f in futs:
            try:
                f.result()
            except vlib.Infra as e:      # let the other jobs finish, then report
                err = err or e
    join(ctx, subs)
    if err and not ctx.violations:
        raise err
    ctx.exhaustive = True
    tr = os.path.join(subs[-1].work, "random0.ndjson")
    if os.path.exists(tr):
        ctx.sample({"kind": "recorded trace (first events)", "events": [json.loads(x) for x in vlib.read_lines(tr, 1, 12)]})
