# C10 - Async pipe: lossless ordered contiguous appends; cleanup flushes and returns.
#   model:   spec/AsyncPipe/AsyncPipe.tla (producers, back end, cleanup caller; mutexes, condition variables, timed wait)
#            over the per-critical-section data actions of AsyncPipeData.tla: safety (order/contiguity, conservation, buffer
#            accounting, callbacks never overlap, cleanup flushes) and liveness (cleanup terminates - also without relying
#            on the wait timeout -, no producer stuck, everything delivered); as-found switch (stop written without the
#            mutex) must violate the lockset discipline and, without the timeout, CleanupTerminates.
#   binding: hook points in every critical section of the real AsyncPipe + the sink callback's own events, ordered by a
#            global sequence number, validated by TLC against the same data actions (Trace_AsyncPipe.tla); gated scenarios
#            and seeded random producer scripts with perturbed schedules over several configurations; TSan + ASan builds.
import json
import os
import vlib

SRC = vlib.BASE_SRC + ["util/async_pipe.cpp"]
INV = "CallbacksNeverOverlap Conservation BuffAccountingLoose NoEmptyBlocks InOrder"
CFGS = [(1, 1, 1), (1, 2, 10), (2, 1, 2), (3, 2, 3), (50, 1, 1), (64, 2, 5), (1024, 2, 10)]


def trace_cfg(ctx, size, mn, mx):
    p = ctx.tmp("Trace_%d_%d_%d.cfg" % (size, mn, mx))
    with open(p, "w") as f:
        f.write("CONSTANTS\n P = 251\n Producers = {1,2,3,4}\n Size = %d\n MinB = %d\n MaxB = %d\nSPECIFICATION TSpec\n"
                "CONSTRAINT Progress\nPOSTCONDITION Accepted\nINVARIANTS %s\nCHECK_DEADLOCK FALSE\n" % (size, mn, mx, INV))
    return p


def validate(ctx, exe, args, trace, cfg, what):
    return vlib.record_and_validate(ctx, exe, args, trace, "AsyncPipe", "Trace_AsyncPipe.tla", cfg, what, timeout=300 if ctx.quick() else 2400)


def run_scenarios(ctx, exe, path, tag):
    # one TLC run per scenario (each has its own buffer configuration)
    for i, line in enumerate(open(path)):
        if not line.strip():
            continue
        x = json.loads(line)
        if "cfg" not in x:
            continue
        sp = ctx.tmp("%s_%d.jsonl" % (tag, i))
        open(sp, "w").write(line)
        tr = ctx.tmp("%s_%d.ndjson" % (tag, i))
        c = x["cfg"]
        validate(ctx, exe, ["script", sp, tr], tr, trace_cfg(ctx, c["size"], c["min"], c["max"]), "scenario: " + x.get("name", "replay"))


def run(ctx):
    asan = vlib.build("c10_asyncpipe", SRC, ["c10_asyncpipe/driver.cpp"], flavour="asan", defines=vlib.BASE_DEFS)
    tsan = vlib.build("c10_asyncpipe", SRC, ["c10_asyncpipe/driver.cpp"], flavour="tsan", defines=vlib.BASE_DEFS)
    ctx.fault_observers = ["ThreadSanitizer on the recording harness (data races)", "ASan+UBSan build (exact-size source blocks)",
                           "watchdog on cleanup() (hang = Fault)"]
    if ctx.replay_path:
        first = open(ctx.replay_path).readline()
        if '"producers"' in first:
            run_scenarios(ctx, asan, ctx.replay_path, "replay")
        else:
            ev = [json.loads(x) for x in open(ctx.replay_path) if x.strip().startswith("{")]
            b = [e for e in ev if e.get("e") == "begin"]
            if not b:
                raise vlib.Infra("replay file has no begin event")
            tr = ctx.tmp("replay.ndjson")
            open(tr, "w").write(open(ctx.replay_path).read())
            ok, info = ctx.tlc_trace("AsyncPipe", "Trace_AsyncPipe.tla", trace_cfg(ctx, b[0]["size"], b[0]["min"], b[0]["max"]), tr, 1,
                                     what="replay of recorded events")
            if not ok:
                ctx.violation("recorded execution is rejected by the specification", ctx.replay_path)
        return
    # 1. the design
    acts = ["PEnter", "PExit", "PNeedBuffer", "PTakeGrown", "PChunk", "PPush", "PWakeFree", "BTop", "BBlock", "BNotified", "BRecheck", "BFlagged", "BDrain", "BCbBegin", "BCbEnd", "BRecycle", "BPutBack", "BRoundEnd",
            "BTimeout", "CBegin", "CStop", "CNotify", "CJoin"]
    ctx.tlc_mc("AsyncPipe", "MC_AsyncPipe.tla", "MC_s2_12.cfg", required_actions=acts)
    ctx.tlc_mc("AsyncPipe", "MC_AsyncPipe.tla", "MC_s1_11.cfg", coverage=False)
    ctx.tlc_mc("AsyncPipe", "MC_AsyncPipe.tla", "MC_s3_23.cfg", coverage=False)
    ctx.tlc_mc("AsyncPipe", "MC_AsyncPipe.tla", "MC_s1_live.cfg", coverage=False)
    ctx.tlc_mc("AsyncPipe", "MC_AsyncPipe.tla", "MC_s2_live.cfg", coverage=False)
    ctx.tlc_mc("AsyncPipe", "MC_AsyncPipe.tla", "MC_s2_live_notimeout.cfg", coverage=False)
    ctx.tlc_mc("AsyncPipe", "MC_AsyncPipe.tla", "MC_af_stop.cfg", expect="LocksetDiscipline", coverage=False)
    ctx.tlc_mc("AsyncPipe", "MC_AsyncPipe.tla", "MC_af_stop_notimeout.cfg", expect="CleanupTerminates", coverage=False)
    if not ctx.quick():
        ctx.tlc_mc("AsyncPipe", "MC_AsyncPipe.tla", "MC_big.cfg", coverage=False, timeout=2400)
        ctx.tlc_mc("AsyncPipe", "MC_AsyncPipe.tla", "MC_big_live.cfg", coverage=False, timeout=2400)
    # 2. gated scenarios
    run_scenarios(ctx, asan, os.path.join(vlib.HARNESS, "c10_asyncpipe", "scenarios.jsonl"), "scenario")
    ctx.sample({"kind": "gated scenario", "script": json.loads(open(os.path.join(vlib.HARNESS, "c10_asyncpipe", "scenarios.jsonl")).readline())})
    # 3. random producer scripts per configuration
    n_tsan, n_asan = (60, 25) if ctx.quick() else (1500, 500)
    cfgs = [CFGS[0], CFGS[2], CFGS[3], CFGS[5]] if ctx.quick() else CFGS
    for i, (size, mn, mx) in enumerate(cfgs):
        cfg = trace_cfg(ctx, size, mn, mx)
        tr = ctx.tmp("random_tsan_%d.ndjson" % i)
        validate(ctx, tsan, ["random", ctx.seed * 100 + i, n_tsan, size, mn, mx, tr], tr, cfg, "random (TSan) size=%d min=%d max=%d" % (size, mn, mx))
        if i == 0:
            ctx.sample({"kind": "recorded events", "events": [json.loads(x) for x in vlib.read_lines(tr, 1, 14)]})
        if ctx.quick() and i >= 2:
            continue
        tr = ctx.tmp("random_asan_%d.ndjson" % i)
        validate(ctx, asan, ["random", ctx.seed * 100 + 50 + i, n_asan, size, mn, mx, tr], tr, cfg, "random (ASan) size=%d min=%d max=%d" % (size, mn, mx))
    ctx.assumptions = ["cleanup() is called after all producers have returned (calling it concurrently with append() is outside the class's contract)",
                       "byte content is the pattern (p*37 + position) % 251 per producer, compared as maximal runs",
                       "hang detection uses a watchdog (20 s; 6 s in the lost wake-up scenario whose flush interval is 600 s)"]
