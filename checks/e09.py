# E09 - tbox::eventx::TimerPool: doEvery / doAfter / doAt / cancel / cleanup / destruction on a real event loop.
#   model:   spec/TimerPool/TimerPool.tla (implementation-shaped: cabinet of tokens, TimerEvent objects with deferred deletion, the
#            loop's heap abstracted to "a due timer of minimum deadline", pass = PassBegin / FireOne + callback operations / PassEnd,
#            loop life cycle pre / run / post; ghost fields carry the properties) -- TLC exhaustive on small scopes, plus one
#            configuration per wrong mechanism variant that MUST violate "its" invariant.
#   binding: spec -> code: histories of the bounded model (exhaustive focus family, random walks through the life cycle and deep ones)
#            become scripts; code -> spec: seeded random scripts (stale / null / never-issued tokens, cleanup and creation inside
#            callbacks, operations before the loop runs and after it has stopped).  All scripts run on a real Loop (epoll and select)
#            under a virtual clock, driven pass by pass from inside the loop; every recorded trace is validated by TLC against
#            spec/TimerPool/Trace_TimerPool.tla.  LeakSanitizer is asked after every execution (line "end").
import concurrent.futures as cf
import copy
import json
import os
import random
import vlib

SRC = vlib.BASE_SRC + vlib.EVENT_SRC + ["eventx/timer_pool.cpp"]
DEFS = vlib.BASE_DEFS + vlib.EVENT_DEFS
ACTIONS = ["NDoEvery|DoEvery", "NDoAfter|DoAfter", "NDoAt|DoAt", "DoNull", "NCancel|Cancel", "Cleanup", "Destroy", "NAdvance|Advance",
           "LoopStart", "LoopStop", "PassBegin", "NFireOne|FireOne", "CbEnd", "PassEnd"]
AS_FOUND = [("clear_resets_id", "TokenUnique"), ("lazy_cancel", "NoFireAfterCancel"), ("delete_now", "NoDeleteRunning"),
            ("oneshot_keeps_token", "CancelTruth"), ("cleanup_no_disable", "NoFireAfterCancel"), ("cancel_leaks", "NoLeak"),
            ("rearm_now", "NoSkip"), ("at_wraps", "NoSkip")]
HARNESS_ENV = {"ASAN_OPTIONS": vlib.SAN_ENV["ASAN_OPTIONS"].replace("detect_leaks=0", "detect_leaks=1")}
MAXLINES = 60000
BASES = [2, 1000, 123456789, 2 ** 40]      # value of the monotonic clock when the execution starts


# ---------------------------------------------------------------------------------------------------------------------
# model history -> driver script
# ---------------------------------------------------------------------------------------------------------------------
def clean(r):
    o = {"o": r["o"]}
    if r["o"] == "adv":
        o["n"] = r["d"]
    elif r["o"] in ("every", "after"):
        o["i"], o["d"] = r["i"], r["d"]
    elif r["o"] == "at":
        o["i"], o["off"] = r["i"], r["d"]
    elif r["o"] == "cancel":
        o["i"] = r["i"]
    elif r["o"] == "null":
        o["m"] = "after"
    return o


def script_of(beh, nslots, base, tail=True):
    """top-level operations in order; callback operations keyed by (slot, n-th invocation of that slot).  Which of several timers with
    equal deadlines the real loop invokes first is its own choice (and doAt may compute a delay one millisecond shorter than the model
    chose), so the execution need not follow the model history -- it only has to be SOME behaviour of the specification."""
    top, cb, fc, key = [], {}, {}, None
    for r in beh["hist"]:
        if r["o"] == "fire":
            fc[r["i"]] = fc.get(r["i"], 0) + 1
            key = "%d:%d" % (r["i"], fc[r["i"]])
        elif r["cb"] != 0:
            cb.setdefault(key, []).append(clean(r))
        else:
            top.append(clean(r))
    names = [o["o"] for o in top]
    if tail and "start" in names and "stop" not in names:
        # let whatever is still armed show what it does: finish the pass, then two late passes
        top += [{"o": "pass"}, {"o": "adv", "n": 1}, {"o": "pass"}, {"o": "adv", "n": 5}, {"o": "pass"}]
    return {"n": nslots, "base": base, "top": top, "cb": cb}


def dedupe(scripts):
    seen, out = set(), []
    for s in scripts:
        k = json.dumps(s, sort_keys=True)
        if k not in seen:
            seen.add(k)
            out.append((k, s))
    out.sort(key=lambda x: x[0])          # TLC prints behaviours in varying order: sort for determinism
    return [s for _, s in out]


# ---------------------------------------------------------------------------------------------------------------------
# seeded random scripts (no model knowledge: inapplicable operations are skipped by the driver)
# ---------------------------------------------------------------------------------------------------------------------
def rand_ops(rnd, n, count, dmax, advmax, in_cb=False):
    ops = []
    for _ in range(count):
        i = rnd.randint(1, n)
        r = rnd.random()
        if r < 0.20:
            ops.append({"o": "every", "i": i, "d": rnd.randint(1, dmax)})
        elif r < 0.40:
            ops.append({"o": "after", "i": i, "d": rnd.randint(1, dmax)})
        elif r < 0.48:
            ops.append({"o": "at", "i": i, "off": rnd.randint(-3, dmax)})
        elif r < 0.70:
            ops.append({"o": "cancel", "i": i})
        elif r < 0.78:
            ops.append({"o": "cancelx", "i": i, "how": rnd.choice(["null", "id+1", "pos+1", "far"])})
        elif r < 0.84:
            ops.append({"o": "cleanup"})
        elif r < 0.87:
            ops.append({"o": "null", "m": rnd.choice(["every", "after"])})
        elif r < 0.89 and not in_cb:
            ops.append({"o": "destroy"})
        else:
            ops.append({"o": "adv", "n": rnd.randint(1, advmax)})
    return ops


def rand_script(rnd, family):
    if family == "shared":          # many timers sharing one deadline, cancelled / cleaned up from callbacks of the same pass
        n = rnd.randint(4, 16)
        d = rnd.randint(1, 3)
        top = [{"o": "start"}]
        for i in range(1, n + 1):
            top.append({"o": rnd.choice(["every", "after"]), "i": i, "d": d if rnd.random() < 0.8 else rnd.randint(1, 3)})
        passes, dmax, advmax, pcb = rnd.randint(2, 5), 3, 2 * d + 2, 0.5
    else:                           # general mix, operations before the loop runs and after it has stopped
        n = rnd.randint(1, 6)
        top = rand_ops(rnd, n, rnd.randint(0, 2 * n), 5, 3) if rnd.random() < 0.5 else []
        top.append({"o": "start"})
        top += rand_ops(rnd, n, rnd.randint(1, 2 * n), 5, 3)
        passes, dmax, advmax, pcb = rnd.randint(3, 8), 5, 8, 0.4
    for _ in range(passes):
        if rnd.random() < 0.85:
            top.append({"o": "adv", "n": rnd.randint(1, advmax)})
        top.append({"o": "pass"})
        if rnd.random() < 0.6:
            top += rand_ops(rnd, n, rnd.randint(1, 4), dmax, advmax)
    top.append({"o": "pass"})
    if rnd.random() < 0.6:
        top.append({"o": "stop"})
        top += rand_ops(rnd, n, rnd.randint(0, 4), dmax, advmax)
    cb = {}
    for i in range(1, n + 1):
        for k in range(1, 7):
            if rnd.random() < pcb:
                cb["%d:%d" % (i, k)] = rand_ops(rnd, n, rnd.randint(1, 3), dmax, 3, True)
    return {"n": n, "base": rnd.choice(BASES), "top": top, "cb": cb}


# ---------------------------------------------------------------------------------------------------------------------
def est_lines(s):
    # measured: 1.5 - 4 lines per scripted operation (fires included); chunks must stay far below TLC's 65535 states per behaviour
    return 4 * len(s["top"]) + 4 * sum(len(v) + 1 for v in s["cb"].values()) + 12


def run_scripts(ctx, exe, scripts, tag, counted_as, cfg="Trace_TimerPool.cfg"):
    chunks, cur, n = [], [], 0
    for s in scripts:
        w = est_lines(s)
        if cur and n + w > MAXLINES:
            chunks.append(cur)
            cur, n = [], 0
        cur.append(s)
        n += w
    if cur:
        chunks.append(cur)
    last = None
    for k, ch in enumerate(chunks):
        sp = ctx.tmp("%s_%d.jsonl" % (tag, k))
        with open(sp, "w") as f:
            for s in ch:
                f.write(json.dumps(s) + "\n")
        tr = ctx.tmp("%s_%d.ndjson" % (tag, k))
        ok, n = vlib.record_and_validate(ctx, exe, ["run", "alt", sp, tr], tr, "TimerPool", "Trace_TimerPool.tla", cfg,
                                         "%d scripts (%s #%d)" % (len(ch), tag, k), timeout=420, env=HARNESS_ENV)
        last = tr
        if ok and counted_as == "replay":
            ctx.traces_ok -= n
            ctx.replays_ok += n
        if not ok:
            return False, tr
    return True, last


def script_from_trace(lines):
    """--replay: rebuild the script from a saved (rejected) execution."""
    ev = [json.loads(x) for x in lines if x.strip().startswith("{")]
    n, base = 1, 1000
    top, cb, key, slot_of_tok = [], {}, None, {}
    for e in ev:
        t = e["e"]
        if t == "info":
            n, base = max(n, e.get("n", n)), int(e.get("base", "1000"))
        elif t == "fire":
            key = None
            cnt = sum(1 for x in ev[:ev.index(e) + 1] if x["e"] == "fire" and x["i"] == e["i"])
            key = "%d:%d" % (e["i"], cnt)
        elif t in ("pass", "start", "stop"):
            top.append({"o": t})
        elif t in ("every", "after", "at", "null", "cancel", "cleanup", "destroy", "adv"):
            op = {"o": t}
            if t in ("every", "after"):
                op["i"], op["d"] = e["i"], e["d"]
                slot_of_tok[e["tok"]] = e["i"]
            elif t == "at":
                op["i"], op["off"] = e["i"], e["off"]
                slot_of_tok[e["tok"]] = e["i"]
            elif t == "null":
                op["m"] = e["m"]
            elif t == "adv":
                op["n"] = e["n"]
            elif t == "cancel":
                if e["tok"] in slot_of_tok:
                    op["i"] = slot_of_tok[e["tok"]]
                else:
                    op = {"o": "cancelx", "i": 1, "how": "null" if e["tok"] == 0 else "far"}
            (cb.setdefault(key, []) if e.get("cb", 0) else top).append(op)
    return {"n": n, "base": base, "top": top, "cb": cb}


def fork(ctx, name):
    """Independent TLC/driver jobs run side by side; each gets its own scratch directory and counters (summed in join)."""
    c = copy.copy(ctx)
    c.work = os.path.join(ctx.work, name)
    os.makedirs(c.work, exist_ok=True)
    c.states = c.transitions = c.traces_ok = c.replays_ok = 0
    c._n = 0
    c.actions = {}
    c.mc_runs = []
    return c


def join(ctx, subs):
    for c in subs:
        ctx.states += c.states
        ctx.transitions += c.transitions
        ctx.traces_ok += c.traces_ok
        ctx.replays_ok += c.replays_ok
        ctx.mc_runs += c.mc_runs
        for k, v in c.actions.items():
            t = ctx.actions.setdefault(k, [0, 0])
            t[0] += v[0]
            t[1] += v[1]


def run(ctx):
    exe = vlib.build("e09_timerpool", SRC, ["e09_timerpool/driver.cpp"], flavour="asan", defines=DEFS)
    ctx.fault_observers = ["AddressSanitizer+UBSan on the harness build (the callback functors live on the heap inside the TimerEvent: a timer "
                           "deleted under its running callback is a heap-use-after-free)", "LeakSanitizer asked after every execution "
                           "(a TimerEvent the pool forgot to delete)", "TBOX_ASSERT active (~TimerEventImpl asserts it is not inside its callback)",
                           "terminate/signal handlers"]
    if ctx.replay_path:
        lines = open(ctx.replay_path).read().splitlines()
        if not any('"e":"info"' in x for x in lines):      # a model-level counterexample: re-check the models
            ctx.tlc_mc("TimerPool", "MC_TimerPool.tla", "MC_cov.cfg", coverage=False)
            ctx.tlc_mc("TimerPool", "MC_TimerPool.tla", "MC_quick.cfg", coverage=False)
            return
        run_scripts(ctx, exe, [script_from_trace(lines)], "replay", "replay")
        return
    quick = ctx.quick()
    half = max(2, vlib.NCPU // 2)
    rnd0 = random.Random(ctx.seed)

    # 1. the design ---------------------------------------------------------------------------------------------------
    def j_mc(c):
        c.tlc_mc("TimerPool", "MC_TimerPool.tla", "MC_cov.cfg", required_actions=ACTIONS, workers=half)            # vacuity guard
        for variant, inv in AS_FOUND:
            c.tlc_mc("TimerPool", "MC_TimerPool.tla", "AF_%s.cfg" % variant, expect=inv, coverage=False, timeout=300, workers=2)

    def j_mc2(c):
        c.tlc_mc("TimerPool", "MC_TimerPool.tla", "MC_quick.cfg" if quick else "MC_thorough.cfg", coverage=False, timeout=3000, workers=half)
        if not quick:
            c.tlc_mc("TimerPool", "MC_TimerPool.tla", "MC_ops2.cfg", coverage=False, timeout=3000, workers=half)

    # 2. spec -> code -------------------------------------------------------------------------------------------------
    def j_focus(c):
        behs = c.tlc_gen("TimerPool", "Gen_TimerPool.tla", "Gen_focus.cfg", timeout=900, workers=2)
        scripts = dedupe([script_of(b, 3, BASES[k % 4]) for k, b in enumerate(behs)])
        total = len(scripts)
        if quick:
            scripts = random.Random(ctx.seed).sample(scripts, min(len(scripts), 2500))
        run_scripts(c, exe, scripts, "focus", "replay")
        return scripts, total

    def j_life(c):
        behs = c.tlc_gen("TimerPool", "Gen_TimerPool.tla", "Gen_life.cfg", simulate=(2500 if quick else 30000, 40), timeout=600, workers=1,
                         limit=1000 if quick else 10000)
        scripts = dedupe([script_of(b, 2, BASES[k % 3]) for k, b in enumerate(behs)])
        run_scripts(c, exe, scripts, "life", "replay")
        return scripts

    def j_deep(c):
        behs = c.tlc_gen("TimerPool", "Gen_TimerPool.tla", "Gen_sim.cfg", simulate=(3000 if quick else 40000, 90), timeout=600, workers=1,
                         limit=500 if quick else 6000)
        scripts = dedupe([script_of(b, 4, BASES[k % 4]) for k, b in enumerate(behs)])
        run_scripts(c, exe, scripts, "deep", "replay")
        return scripts

    # 3. code -> spec: seeded random scripts ---------------------------------------------------------------------------
    def j_random(c):
        rnd = random.Random(ctx.seed)
        nrand = 700 if quick else 8000
        rs = [rand_script(rnd, ("general", "general", "shared")[j % 3]) for j in range(nrand)]
        ok, tr = run_scripts(c, exe, rs, "random", "trace")
        return [json.loads(x) for x in vlib.read_lines(tr, 1, 16)] if tr else []

    jobs = [("mc", j_mc), ("focus", j_focus), ("mc2", j_mc2), ("life", j_life), ("random", j_random), ("deep", j_deep)]
    only = os.environ.get("E09_JOBS")          # development knob: run a subset of the jobs (evidence is then partial)
    if only:
        jobs = [(n, f if n in only.split(",") else (lambda c: None)) for n, f in jobs]
    subs = [fork(ctx, n) for n, _ in jobs]
    with cf.ThreadPoolExecutor(max_workers=max(3, min(6, vlib.NCPU // 2))) as ex:
        futs = [ex.submit(f, c) for (n, f), c in zip(jobs, subs)]
        res = []
        err = None
        for f in futs:
            try:
                res.append(f.result())
            except vlib.Infra as e:      # let the other jobs finish, then report
                err = err or e
                res.append(None)
    join(ctx, subs)
    if err and not ctx.violations:
        raise err
    if err:
        ctx.notes.append("an infrastructure error in one job was not reported because violations were found: %s" % str(err)[:300])
    ctx.exhaustive = True
    if only:
        ctx.notes.append("partial run: E09_JOBS=" + only)
        return
    _, focus, _, life, first, deep = res
    if focus and life and deep:
        ctx.notes.append("focus family (3 preloaded timers, every period/kind assignment, late wake-up, every <=1-operation callback of the "
                         "first invocations): %d scripts, %d executed; %d random walks through the life cycle (operations before the loop runs, "
                         "after it has stopped, destruction); %d random deep model histories" % (focus[1], len(focus[0]), len(life), len(deep)))
        ctx.sample({"kind": "model history turned into a script and executed on the real TimerPool", "script": focus[0][len(focus[0]) // 2]})
        ctx.sample({"kind": "life-cycle walk of the model", "script": life[len(life) // 2]})
    if first:
        ctx.sample({"kind": "recorded trace (first events)", "events": first})
    ctx.assumptions = [
        "periods / delays are >= 1 ms for doEvery/doAfter (doEvery(0) makes the loop spin forever in handleExpiredTimers: not generated)",
        "the pool is used from the loop thread only; it is not destroyed from inside a callback of one of its own timers (the doAfter "
        "wrapper touches the pool after the user callback returns)",
        "doAt(): the wall clock does not step backwards during the call; time points from 3 ms in the past (also further back than the "
        "virtual monotonic clock's value, which starts at 2 ms in a quarter of the executions) to 5 ms ahead",
        "the monotonic clock never reads exactly 0 ms (deadline 0 is the sentinel CommonLoop::deleteTimer() uses)",
        "open in the reference, accepted both ways: the answer of cancel(own token) from inside the own doAfter callback (the code says true)",
    ]
    ctx.uncovered = ["real monotonic clock / real sleeping (everything is decided under the virtual clock)", "foreign-thread calls",
                     "more than 16 timers per pool; more than one pool per loop", "exact moment of the deferred deletions (only: not under a "
                     "running callback - ASan/assert - and nothing left at the end - LeakSanitizer)"]
