# E03 - tbox::flow::EventPublisherImpl: subscribe / unsubscribe / publish incl. re-entrant calls from inside onEvent.
#   model:   spec/EventPublisher/EventPublisher.tla (reference semantics: declarative rules per delivery / per return from publish)
#            spec/EventPublisher/EventPublisherImpl.tla (implementation-shaped: subscriber_vec_ + one local pending copy per
#            publish activation, in lockstep with the reference) -- TLC exhaustive; as-found switches must violate.
#   binding: spec -> code: every behaviour of the model with <= 4 calls (all of 5 calls in the thorough tier, a seeded sample of
#            them in the quick tier) over 3 subscribers, incl. calls from inside onEvent and every return value, is executed on the
#            real class by harness/e03_eventpublisher/driver.cpp; code -> spec: seeded random histories (3 and 5 subscribers, nested
#            publishes to depth 3, subscribers destroyed after unsubscribing); every recorded trace (each onEvent entry/return,
#            each call, each return of publish) is validated by TLC against spec/EventPublisher/Trace_EventPublisher.tla.
import json
import random
import vlib

SRC = vlib.BASE_SRC + ["flow/event_publisher_impl.cpp"]
ACTIONS = ["TopSub", "TopUnsub", "TopPub", "CbSub", "CbUnsub", "CbPub", "Deliver", "Ret", "PubEnd"]
INV = "TypeOK SubsMatch NoDeliveryToUnsubscribed NoLateJoiner AtMostOnce StopsWhenHandled NewestFirst NobodyMissed"
MAXLINES = 40000          # lines per trace file (TLC: one state per line, behaviours < 65535 states)


def to_script(ev):
    """flat history sub/unsub/pub/dlv/ret/end (from the generator or from a recorded trace) -> driver script"""
    top, cb = [], []

    def user(i, ops):
        while i < len(ev):
            e = ev[i]
            if e["e"] in ("sub", "unsub"):
                ops.append({"o": "kill" if e.get("k") else e["e"], "s": e["s"]})
                i += 1
            elif e["e"] == "pub":
                ops.append({"o": "pub", "s": 0})
                i = frame(i + 1)
            else:
                break
        return i

    def frame(i):
        while i < len(ev):
            e = ev[i]
            if e["e"] == "dlv":
                r = {"ops": [], "r": False}
                cb.append(r)
                i = user(i + 1, r["ops"])
                if i < len(ev) and ev[i]["e"] == "ret":
                    r["r"] = bool(ev[i].get("r"))
                    i += 1
                else:
                    return len(ev)
            elif e["e"] == "end":
                return i + 1
            else:
                return len(ev)
        return i

    user(0, top)
    return {"top": top, "cb": cb}


def validate(ctx, exe, args, trace, what):
    return vlib.record_and_validate(ctx, exe, args, trace, "EventPublisher", "Trace_EventPublisher.tla", "Trace_EventPublisher.cfg", what)


def run_scripts(ctx, exe, scripts, tag):
    """executes the scripts in chunks (trace files of bounded length)"""
    chunks, cur, n = [], [], 0
    for s in scripts:
        npub = sum(1 for o in s["top"] if o["o"] == "pub") + sum(1 for c in s["cb"] for o in c["ops"] if o["o"] == "pub")
        w = len(s["top"]) + sum(len(c["ops"]) + 2 for c in s["cb"]) + 2 * npub + 12     # upper bound of its trace lines (3 subscribers)
        if cur and n + w > MAXLINES:
            chunks.append(cur)
            cur, n = [], 0
        cur.append(s)
        n += w
    if cur:
        chunks.append(cur)
    ok = True
    for k, ch in enumerate(chunks):
        sp = ctx.tmp("%s_%d.jsonl" % (tag, k))
        with open(sp, "w") as f:
            for s in ch:
                f.write(json.dumps(s) + "\n")
        tr = ctx.tmp("%s_%d.ndjson" % (tag, k))
        good, n = validate(ctx, exe, ["script", sp, tr], tr, "replay of %d model behaviours (%s #%d)" % (len(ch), tag, k))
        if good:
            ctx.traces_ok -= n
            ctx.replays_ok += n
        else:
            ok = False
            break
    return ok


def run(ctx):
    exe = vlib.build("e03_eventpublisher", SRC, ["e03_eventpublisher/driver.cpp"], flavour="asan", defines=vlib.BASE_DEFS)
    ctx.fault_observers = ["AddressSanitizer+UBSan on the harness build (probe subscribers are destroyed after unsubscribing: a "
                           "later delivery is a heap-use-after-free)", "terminate/signal handlers"]
    if ctx.replay_path:
        ev = [json.loads(x) for x in open(ctx.replay_path) if x.strip().startswith("{")]
        ev = [e for e in ev if e["e"] not in ("Reset", "Fault")]
        s = to_script(ev)
        if s["top"] and s["top"][-1]["o"] == "pub":
            s["top"].pop()                      # the driver's own closing probe publish
        run_scripts(ctx, exe, [s], "replay")
        return
    # 1. the design: the implementation-shaped model obeys every rule of the reference; the as-found code does not
    ctx.tlc_mc("EventPublisher", "EventPublisherImpl.tla", "MC_cov.cfg", required_actions=ACTIONS)
    ctx.tlc_mc("EventPublisher", "EventPublisherImpl.tla", "MC_quick.cfg" if ctx.quick() else "MC_thorough.cfg", coverage=False)
    for cfg, inv in (("MC_asfound_shadow.cfg", "NoDeliveryToUnsubscribed"), ("MC_asfound_subremove.cfg", "SubsMatch"),
                     ("MC_nv_nobreak.cfg", "StopsWhenHandled"), ("MC_nv_fifo.cfg", "NewestFirst"), ("MC_nv_member.cfg", "NobodyMissed")):
        ctx.tlc_mc("EventPublisher", "EventPublisherImpl.tla", cfg, expect=inv, coverage=False)
    # 2. spec -> code
    rnd = random.Random(ctx.seed)
    b4 = sorted(ctx.tlc_gen("EventPublisher", "Gen_EventPublisher.tla", "Gen_quick.cfg"), key=json.dumps)
    ctx.exhaustive = True
    ctx.sample({"kind": "model behaviour (4 calls) replayed on the real EventPublisherImpl", "history": b4[len(b4) // 2]})
    if not run_scripts(ctx, exe, [to_script(b) for b in b4], "gen4"):
        return
    b5 = sorted(ctx.tlc_gen("EventPublisher", "Gen_EventPublisher.tla", "Gen_five.cfg"), key=json.dumps)
    n5 = len(b5)
    if ctx.quick():
        b5 = rnd.sample(b5, min(len(b5), 4000))
    ctx.notes.append("behaviours with exactly 4 calls: %d (all executed); with exactly 5 calls: %d generated, %d executed" % (len(b4), n5, len(b5)))
    nested = [b for b in b5 if sum(1 for e in b if e["e"] == "pub") >= 2 and any(e["e"] == "unsub" for e in b)]
    ctx.sample({"kind": "model behaviour (5 calls) replayed on the real EventPublisherImpl", "history": (nested or b5)[0]})
    if not run_scripts(ctx, exe, [to_script(b) for b in b5], "gen5"):
        return
    # 3. code -> spec: seeded random histories
    for nsubs, nexec, nops in ((3, 500, 24), (5, 500, 30)) if ctx.quick() else ((3, 5000, 24), (5, 5000, 30), (6, 2000, 40)):
        per = max(1, MAXLINES // (nops * 7))
        done, k = 0, 0
        while done < nexec:
            n = min(per, nexec - done)
            tr = ctx.tmp("random_%d_%d.ndjson" % (nsubs, k))
            good, _ = validate(ctx, exe, ["random", ctx.seed * 1000 + nsubs * 100 + k, n, nops, nsubs, tr], tr,
                               "random histories, %d subscribers #%d" % (nsubs, k))
            if not good:
                return
            if k == 0 and nsubs == 3:
                ctx.sample({"kind": "recorded trace (first events)", "events": [json.loads(x) for x in vlib.read_lines(tr, 1, 14)]})
            done += n
            k += 1
    ctx.assumptions = ["subscribers are identified by pointer; a subscriber that is unsubscribed AND subscribed again while a publish "
                       "is under way may or may not get that event (left open by the reference)",
                       "single-threaded use (the class has no locking); events carry only an id in the traces (extra pointer not compared)"]
    ctx.uncovered = ["EventAction (the production subscriber) itself is not exercised; the probes imitate its subscribe / unsubscribe / "
                     "unsubscribe-and-destroy pattern"]
