# E01 (extension) - tbox::util::Variables: scoped variables with a parent chain.
#   model:   spec/Variables/Variables.tla - one action per public call, written the way the class works (a lookup walks parent
#            by parent); the reference semantics (closest definer on the ancestor chain, Visible) and the laws of every call
#            (LookupLaw, DefineLaw, UndefineLaw, SetLaw, CopyLaw, MoveLaw, ... Inheritance, Isolation) are separate invariants
#            -- TLC exhaustive on small scopes; AF_copy_stale.cfg (copy-assignment from a scope without variables keeps the
#            target's variables, as found in the code) MUST violate CopyLaw.
#   binding: spec -> code: TRANSITION COVERAGE of two bounded models (every call of the model from every reachable model state,
#            reached by its shortest operation sequence) + random deep model behaviours, executed on three real Variables objects;
#            code -> spec: seeded random histories (4 names, 20 JSON values of every kind, re-parenting, copies, moves, swaps).
#            Every recorded call is validated by TLC against spec/Variables/Trace_Variables.tla: the answer, the out parameter,
#            and after every call everything every scope shows through toJson/get/get(local)/has/has(local)/empty.
import concurrent.futures as cf
import copy
import json
import os
import vlib

SRC = vlib.BASE_SRC + ["util/variables.cpp", "util/json.cpp"]
ACTIONS = ["Define", "Undefine", "Has", "Get", "GetT", "SetVar", "SetParent", "IsEmpty", "Copy", "Move", "Swap", "Reset"]
INVS = ("Inheritance LookupLaw QueryFrame DefineLaw UndefineLaw SetLaw SetParentLaw CopyLaw MoveLaw SwapLaw ResetLaw Isolation").split()


def validate(ctx, exe, args, trace, what):
    return vlib.record_and_validate(ctx, exe, args, trace, "Variables", "Trace_Variables.tla", "Trace_Variables.cfg", what)


def run_scripts(ctx, exe, behs, tag, nnames):
    sp = ctx.tmp(tag + ".jsonl")
    with open(sp, "w") as f:
        for b in behs:
            f.write(json.dumps(b) + "\n")
    tr = ctx.tmp(tag + ".ndjson")
    ok, n = validate(ctx, exe, ["script", nnames, sp, tr], tr, "%d model behaviours on the real class (%s)" % (len(behs), tag))
    if ok:
        ctx.traces_ok -= n
        ctx.replays_ok += n
    return ok


QUERIES = ("has", "get", "gett", "empty")


def batch_queries(behs):
    """Gen_s3/Gen_n2 print, for every transition of the model, the shortest script to its source state plus the call.  Calls that
    change nothing (has/get/get<T>/empty) from the same source state are put into one script; every other call keeps its own."""
    groups, out = {}, []
    for b in behs:
        if b[-1]["o"] in QUERIES:
            groups.setdefault(json.dumps(b[:-1], sort_keys=True), []).append(b[-1])
        else:
            out.append(b)
    for k in groups:
        qs = sorted(groups[k], key=lambda o: json.dumps(o, sort_keys=True))
        out.append(json.loads(k) + qs)
    out.sort(key=lambda b: json.dumps(b, sort_keys=True))
    return out


def fork(ctx, name):
    """Independent TLC/driver jobs run side by side; each gets its own scratch directory and counters (summed in join)."""
    c = copy.copy(ctx)
    c.work = os.path.join(ctx.work, name)
    os.makedirs(c.work, exist_ok=True)
    c.states = c.transitions = c.traces_ok = c.replays_ok = 0
    c._n = 0
    c.actions = {}
    c.mc_runs = []
    return c


def join(ctx, subs):
    for c in subs:
        ctx.states += c.states
        ctx.transitions += c.transitions
        ctx.traces_ok += c.traces_ok
        ctx.replays_ok += c.replays_ok
        ctx.mc_runs += c.mc_runs


def ops_of_replay(path):
    ops = []
    for x in open(path):
        x = x.strip()
        if not x.startswith("{"):
            continue
        e = json.loads(x)
        if e["e"] in ("Reset", "Fault"):
            continue
        ops.append({"o": e["e"], "s": e.get("s", 1), "d": e.get("d", 0), "n": e.get("n", "a"), "l": e.get("l", False),
                    "t": e.get("t", "int"), "cell": e.get("v")})
    return ops


def run(ctx):
    exe = vlib.build("e01_variables", SRC, ["e01_variables/driver.cpp"], flavour="asan", defines=vlib.BASE_DEFS)
    ctx.fault_observers = ["AddressSanitizer+UBSan on the harness build", "terminate/signal handlers (stack exhaustion of a runaway lookup)"]
    ctx.assumptions = ["parent links always form a forest: the class does not support cycles (a failing lookup would recurse forever); "
                       "the model enables link-changing calls only when the result is a forest and the driver does the same",
                       "a scope outlives every scope that names it as parent (the three scopes live for the whole execution)",
                       "single-threaded use (the class has no synchronisation)"]
    ctx.uncovered = ["get<unsigned int>() (only int, double, std::string and bool of the template getter are exercised)",
                     "allocation failure"]
    if ctx.replay_path:
        # values are re-created from their logged JSON text through the driver's table when possible; otherwise value 1 is used
        table = ["12", "\"hello\"", "12.5", "true", "null", "[1,\"x\",{\"k\":2.5}]", "{\"a\":{\"b\":[1,2]},\"z\":null}", "-7", "\"\"", "0",
                 "false", "\"12\"", "{}", "3000000000", "[]", "-0.25", "\"~\"", "2147483647", "-2147483649"]
        ops = ops_of_replay(ctx.replay_path)
        for o in ops:
            c = o.pop("cell", None)
            o["v"] = (table.index(c[1]) + 1) if c and c[1] in table else 1
        run_scripts(ctx, exe, [ops], "replay", 4)
        return
    # 1. the design: the way the class looks names up meets the reference semantics, for every call
    ctx.tlc_mc("Variables", "MC_Variables.tla", "MC_cov.cfg", required_actions=ACTIONS)       # per-action coverage (vacuity guard)
    ctx.tlc_mc("Variables", "MC_Variables.tla", "MC_quick.cfg", coverage=False)
    ctx.tlc_mc("Variables", "MC_Variables.tla", "MC_names.cfg", coverage=False)
    ctx.tlc_mc("Variables", "MC_Variables.tla", "AF_copy_stale.cfg", expect="CopyLaw", coverage=False, workers=1)
    if not ctx.quick():
        ctx.tlc_mc("Variables", "MC_Variables.tla", "MC_thorough.cfg", coverage=False, timeout=3000)

    # 2. spec -> code: every transition of two bounded models; 3. code -> spec: random histories.  Independent jobs side by side.
    def j_trans(cfg, nn):
        def job(c):
            behs = c.tlc_gen("Variables", "Gen_Variables.tla", cfg, workers=1)
            scripts = batch_queries(behs)
            ctx.notes.append("%s: %d transitions of the bounded model, each executed after the shortest script reaching its source "
                             "state (%d scripts: the calls that change nothing are issued together)" % (cfg, len(behs), len(scripts)))
            tag = cfg[:-4].lower()
            if len(scripts) > 20000:        # two validations side by side
                halves = [(fork(c, "a"), scripts[0::2], tag + "a"), (fork(c, "b"), scripts[1::2], tag + "b")]
                with cf.ThreadPoolExecutor(max_workers=2) as ex2:
                    for f in [ex2.submit(run_scripts, cc, exe, part, t, nn) for cc, part, t in halves]:
                        f.result()
                join(c, [h[0] for h in halves])
            else:
                run_scripts(c, exe, scripts, tag, nn)
            return scripts[len(scripts) // 2]
        return job

    def j_deep(c):
        deep = c.tlc_gen("Variables", "Gen_Variables.tla", "Gen_sim.cfg", simulate=(7 if ctx.quick() else 60, 30), timeout=600,
                         workers=1)       # one worker + fixed seed: the same walks every time (about 280 walks per "num")
        deep.sort(key=lambda b: json.dumps(b, sort_keys=True))
        run_scripts(c, exe, deep, "gensim", 3)
        return deep[0][:8]

    def j_random(c):
        nexec, nops = (1000, 40) if ctx.quick() else (8000, 60)
        tr = c.tmp("random.ndjson")
        validate(c, exe, ["random", ctx.seed, nexec, nops, tr], tr, "random histories")
        return [json.loads(x) for x in vlib.read_lines(tr, 1, 3)]

    jobs = [("s3", j_trans("Gen_s3.cfg", 1)), ("n2", j_trans("Gen_n2.cfg", 2)), ("deep", j_deep), ("random", j_random)]
    subs = [fork(ctx, n) for n, _ in jobs]
    res, err = [], None
    with cf.ThreadPoolExecutor(max_workers=4) as ex:
        futs = [ex.submit(f, c) for (n, f), c in zip(jobs, subs)]
        for f in futs:
            try:
                res.append(f.result())
            except vlib.Infra as e:      # let the other jobs finish, then report
                err = err or e
                res.append(None)
    join(ctx, subs)
    if err and not ctx.violations:
        raise err
    ctx.exhaustive = True
    if res[0]:
        ctx.sample({"kind": "model transition replayed on the real Variables objects (Gen_s3)", "script": res[0]})
    if res[1]:
        ctx.sample({"kind": "model transition replayed on the real Variables objects (Gen_n2)", "script": res[1]})
    if res[2]:
        ctx.sample({"kind": "random deep model behaviour (first operations)", "script": res[2]})
    if res[3]:
        ctx.sample({"kind": "recorded trace (first events)", "events": res[3]})
