# C17 helper: programs (action trees as data) - enumeration and seeded random generation.
# A tree is a nested dict; flatten() turns it into the node array shared by the TLA+ spec and the C++ driver:
#   node = {"k","m","c","p","o","d","tag","to","n"}; ids are 1-based preorder positions, 0 = absent child.
import itertools
import random

SEQ_MODES = PAR_MODES = LOOP_MODES = REPEAT_MODES = (0, 1, 2)
WRAP_MODES = (0, 1, 2, 3)

# leaf alphabet: (outcome, delay)
LEAVES_FULL = [("succ", 0), ("succ", 1), ("fail", 0), ("fail", 1), ("block", 0), ("block", 1), ("never", 0)]
LEAVES_SMALL = [("succ", 0), ("fail", 1), ("block", 0), ("never", 0)]
LEAVES_MID = [("succ", 0), ("succ", 1), ("fail", 0), ("block", 1), ("never", 0)]


def L(o, d=0, tag=0, to=0, k="Leaf"):
    return {"k": k, "m": 0, "kids": [], "o": o, "d": d, "tag": tag, "to": to, "n": 0}


def Nd(k, m, kids, n=0, to=0):
    return {"k": k, "m": m, "kids": list(kids), "o": "", "d": 0, "tag": 0, "to": to, "n": n}


def flatten(tree):
    nodes = []

    def rec(t, parent):
        me = len(nodes) + 1
        nd = {"k": t["k"], "m": t["m"], "c": [], "p": parent, "o": t["o"], "d": t["d"], "tag": t["tag"], "to": t["to"], "n": t["n"]}
        nodes.append(nd)
        for kid in t["kids"]:
            nd["c"].append(0 if kid is None else rec(kid, me))
        return me
    rec(tree, 0)
    return nodes


def nleaves(t):
    if t is None:
        return 0
    if not t["kids"] and t["k"] in ("Leaf", "Sleep", "Func"):
        return 1
    return sum(nleaves(k) for k in t["kids"])


def composites(sub, max_leaves, switch_leaves=None, small=False):
    """All composite shapes whose children are drawn from the list `sub` (trees), with <= max_leaves leaves.
    The switch child of a Switch is always a probe leaf (its result tag selects the case)."""
    out = []

    def tuples(k):
        for tp in itertools.product(sub, repeat=k):
            if sum(nleaves(x) for x in tp) <= max_leaves:
                yield tp
    for ar in (0, 1, 2, 3):
        for tp in tuples(ar):
            for m in SEQ_MODES:
                out.append(Nd("Seq", m, tp))
                out.append(Nd("Par", m, tp))
    for tp in tuples(3):
        out.append(Nd("IfElse", 0, tp))
    for tp in tuples(2):
        out.append(Nd("IfElse", 0, [tp[0], tp[1], None]))
        out.append(Nd("IfElse", 0, [tp[0], None, tp[1]]))
        out.append(Nd("IfThen", 0, tp))
        for r in (0, 1):
            out.append(Nd("LoopIf", r, tp))
    if not small:
        for tp in tuples(4):
            out.append(Nd("IfThen", 0, tp))
    sw = switch_leaves if switch_leaves is not None else [L("succ", 0, 0), L("succ", 0, 1), L("succ", 1, 2), L("fail", 0, 1)]
    for s in sw:
        for tp in tuples(2):
            if nleaves(s) + sum(nleaves(x) for x in tp) <= max_leaves:
                out.append(Nd("Switch", 0, [s, tp[0], tp[1], None]))      # default + case:a
                out.append(Nd("Switch", 0, [s, None, tp[0], tp[1]]))      # case:a + case:b
        for tp in tuples(1):
            out.append(Nd("Switch", 0, [s, None, tp[0], None]))           # case:a only
    for tp in tuples(1):
        for m in LOOP_MODES:
            out.append(Nd("Loop", m, tp))
        for m in REPEAT_MODES:
            for n in (0, 1, 2):
                out.append(Nd("Repeat", m, tp, n=n))
        for m in WRAP_MODES:
            out.append(Nd("Wrap", m, tp))
        out.append(Nd("Comp", 0, tp))
    return out


def leaves(alpha):
    return [L(o, d) for (o, d) in alpha]


def enum_depth1(alpha, max_leaves=3, small=False):
    return composites(leaves(alpha), max_leaves, small=small)


def sample_depth2(rnd, count, alpha_inner=LEAVES_MID, alpha_outer=LEAVES_SMALL, max_leaves=4):
    """Seeded sample of depth-2 trees: a root composite whose children are leaves or depth-1 composites
    (the full product has ~10^7 members, so it is sampled, never materialised)."""
    inner = [t for t in composites(leaves(alpha_inner), 2, switch_leaves=[L("succ", 0, 1), L("fail", 1, 0)], small=True)
             if nleaves(t) >= 1]
    outer_leaves = leaves(alpha_outer)
    res, seen = [], set()
    guard = 0
    while len(res) < count and guard < count * 50:
        guard += 1
        ar = rnd.choice((1, 1, 2, 2, 3))
        kids = [clone(rnd.choice(inner)) if (i == 0 or rnd.random() < 0.4) else clone(rnd.choice(outer_leaves)) for i in range(ar)]
        rnd.shuffle(kids)
        if sum(nleaves(k) for k in kids) > max_leaves:
            continue
        cands = composites_over(kids)
        if not cands:
            continue
        t = rnd.choice(cands)
        key = repr(flatten(t))
        if key in seen:
            continue
        seen.add(key)
        res.append(t)
    return res


def composites_over(kids):
    """All composites that take exactly these children in this order."""
    n = len(kids)
    out = []
    if n >= 1:
        for m in SEQ_MODES:
            out.append(Nd("Seq", m, kids))
            out.append(Nd("Par", m, kids))
    if n == 1:
        for m in LOOP_MODES:
            out.append(Nd("Loop", m, kids))
        for m in REPEAT_MODES:
            for k in (0, 1, 2):
                out.append(Nd("Repeat", m, kids, n=k))
        for m in WRAP_MODES:
            out.append(Nd("Wrap", m, kids))
        out.append(Nd("Comp", 0, kids))
        out.append(Nd("Switch", 0, [L("succ", 0, 1), None, kids[0], None]))
    if n == 2:
        out.append(Nd("IfElse", 0, [kids[0], kids[1], None]))
        out.append(Nd("IfElse", 0, [kids[0], None, kids[1]]))
        out.append(Nd("IfThen", 0, kids))
        out.append(Nd("LoopIf", 0, kids))
        out.append(Nd("LoopIf", 1, kids))
        out.append(Nd("Switch", 0, [L("succ", 1, 2), kids[0], None, kids[1]]))
    if n == 3:
        out.append(Nd("IfElse", 0, kids))
    return [clone(t) for t in out]


def with_timeouts(trees, rnd, frac_root=0.5):
    """Variants with a timeout on the root or on one composite child (timeouts 1 or 2 ticks)."""
    out = []
    for t in trees:
        t2 = clone(t)
        if rnd.random() < frac_root or not any(k and k["kids"] for k in t2["kids"]):
            t2["to"] = rnd.choice((1, 2))
        else:
            ks = [k for k in t2["kids"] if k and k["kids"]]
            rnd.choice(ks)["to"] = rnd.choice((1, 2))
        out.append(t2)
    return out


def clone(t):
    if t is None:
        return None
    c = dict(t)
    c["kids"] = [clone(k) for k in t["kids"]]
    return c


def random_tree(rnd, depth, allow_real_leaves=True, p_timeout=0.12):
    def leaf():
        o = rnd.choice(("succ", "succ", "fail", "fail", "block", "never"))
        d = rnd.choice((0, 0, 1, 1, 2))
        to = rnd.choice((1, 2, 3)) if rnd.random() < p_timeout / 2 else 0
        if allow_real_leaves and o in ("succ", "fail") and d == 0 and rnd.random() < 0.15:
            return L(o, 0, 0, to, k="Func")
        if allow_real_leaves and o == "succ" and d >= 1 and rnd.random() < 0.25:
            return L("succ", d, 0, to, k="Sleep")
        return L(o, d, 0, to)

    def sub(dp):
        if dp <= 0 or rnd.random() < 0.35:
            return leaf()
        return comp(dp)

    def comp(dp):
        k = rnd.choice(("Seq", "Seq", "Par", "Par", "IfElse", "IfThen", "Switch", "Loop", "LoopIf", "Repeat", "Wrap", "Comp"))
        to = rnd.choice((1, 2, 3)) if rnd.random() < p_timeout else 0
        if k in ("Seq", "Par"):
            t = Nd(k, rnd.choice((0, 1, 2)), [sub(dp - 1) for _ in range(rnd.choice((0, 1, 2, 2, 3)))])
        elif k == "IfElse":
            kids = [sub(dp - 1), sub(dp - 1), sub(dp - 1)]
            r = rnd.random()
            if r < 0.2:
                kids[1] = None
            elif r < 0.4:
                kids[2] = None
            t = Nd(k, 0, kids)
        elif k == "IfThen":
            t = Nd(k, 0, [sub(dp - 1) for _ in range(2 * rnd.choice((1, 2)))])
        elif k == "Switch":
            s = L(rnd.choice(("succ", "succ", "succ", "fail", "block")), rnd.choice((0, 1)), rnd.choice((0, 1, 2)))
            kids = [s, sub(dp - 1), sub(dp - 1), sub(dp - 1)]
            r = rnd.random()
            if r < 0.3:
                kids[1] = None
            elif r < 0.5:
                kids[3] = None
            elif r < 0.6:
                kids[2] = None
            t = Nd(k, 0, kids)
        elif k == "Loop":
            t = Nd(k, rnd.choice((0, 1, 2)), [sub(dp - 1)])
        elif k == "LoopIf":
            t = Nd(k, rnd.choice((0, 1)), [sub(dp - 1), sub(dp - 1)])
        elif k == "Repeat":
            t = Nd(k, rnd.choice((0, 1, 2)), [sub(dp - 1)], n=rnd.choice((0, 1, 2, 3)))
        elif k == "Wrap":
            t = Nd(k, rnd.choice((0, 1, 2, 3)), [sub(dp - 1)])
        else:
            t = Nd(k, 0, [sub(dp - 1)])
        t["to"] = to
        return t
    return comp(depth)


def random_script(rnd, passes):
    """Control script: start early, then up to 4 more calls at random passes; some entries are two calls made
    back to back ("reset+start"), some are placed in the middle of a batch ("~stop")."""
    s = ["-"] * passes
    if rnd.random() < 0.12 and passes >= 5:
        # pause ... resume, then reset and start again at once (a held result must not leak into the new run)
        i = rnd.choice((1, 1, 2))
        j = rnd.randrange(i + 1, passes - 1)
        s[0], s[i], s[j], s[j + 1] = "start", "pause", "resume", rnd.choice(("reset+start", "reset+start", "stop+reset+start"))
        return s
    s[rnd.choice((0, 0, 0, 1))] = "start"
    for _ in range(rnd.choice((0, 1, 2, 2, 3, 3, 4))):
        i = rnd.randrange(passes)
        if s[i] != "-":
            continue
        r = rnd.random()
        if r < 0.14:
            e = rnd.choice(("reset+start", "reset+start", "stop+reset", "resume+pause", "pause+resume", "stop+reset+start", "resume+reset+start"))
        else:
            e = rnd.choice(("pause", "pause", "resume", "resume", "resume", "stop", "reset", "start"))
        if rnd.random() < 0.2:
            e = "~" + e
        s[i] = e
    return s
