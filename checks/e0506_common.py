# Helpers shared by the extension checks E05 (command lines) and E06 (network addresses): both bind pure functions /
# small value classes to TLA+ reference operators the way C19 does (call descriptors -> driver -> one ndjson record
# per call -> TLC trace validation).
import glob
import json
import os
import vlib

JVM = ("-Xmx4g", "-Xss64m")          # the reference operators recurse over their input
CHUNK = 15000                        # records per trace file (one TLC state per record; keep behaviours well below 65535 states)


def cleanup_ttrace(spec):
    for f in glob.glob(os.path.join(vlib.SPEC, spec, "*_TTrace_*")):
        try:
            os.remove(f)
        except OSError:
            pass


def tidy(raw_path, rc):
    """The driver announces every call ({"e":"Call"}) before making it and flushes each line.  Keep an announcement only
    when the call did not return (process died inside it): it is then followed by a Fault line that no spec action accepts."""
    lines = [x for x in open(raw_path, errors="replace").read().split("\n") if x.strip()]
    if lines:
        try:
            json.loads(lines[-1])
        except ValueError:
            lines.pop()                                    # a partially written last line
    out = []
    for i, x in enumerate(lines):
        if x.startswith('{"e":"Call"') and i + 1 < len(lines) and not lines[i + 1].startswith('{"e":"Fault"'):
            continue
        out.append(x)
    died = bool(out) and out[-1].startswith('{"e":"Call"')
    if died or (rc != 0 and not (out and out[-1].startswith('{"e":"Fault"'))):
        out.append('{"e":"Fault","kind":"exit","what":"driver exit code %d"}' % rc)
    return out


def chunks_of(lines):
    """Split at execution boundaries (Reset lines) into pieces of at most ~CHUNK records."""
    res, cur = [], []
    for x in lines:
        cur.append(x)
        if len(cur) >= CHUNK and '"e":"Reset"' in x:
            res.append(cur)
            cur = []
    if cur:
        res.append(cur)
    return res


def run_and_validate(ctx, spec, tla, cfg, exe, args, trace, what, count_as="trace", timeout=600):
    """args: driver arguments with the placeholder "@OUT" for the output file.  Returns (ok, lines)."""
    raw = trace + ".raw"
    if os.path.exists(raw):
        os.remove(raw)
    rc, out = vlib.run_harness(exe, [raw if a == "@OUT" else a for a in args], timeout=timeout)
    if rc == 124:
        raise vlib.Infra("driver timeout (%s)" % what)
    if rc == 3 or not os.path.exists(raw):
        raise vlib.Infra("driver usage/IO error rc=%d (%s)\n%s" % (rc, what, out[-1500:]))
    lines = tidy(raw, rc)
    all_ok = True
    for ci, part in enumerate(chunks_of(lines)):
        path = trace if ci == 0 else "%s.%d" % (trace, ci)
        with open(path, "w") as f:
            f.write("\n".join(part) + "\n")
        n_exec = sum(1 for x in part if '"e":"Reset"' in x)
        last = ci == len(chunks_of(lines)) - 1
        ok, info = ctx.tlc_trace(spec, tla, cfg, path, n_exec, what="%s [%d]" % (what, ci) if ci else what, jvm=JVM)
        if ok and (rc == 0 or not last):
            if count_as == "replay":
                ctx.traces_ok -= n_exec
                ctx.replays_ok += n_exec
            continue
        all_ok = False
        pos = (info.get("maxpos") or 1) if not ok else len(part)
        ex, rel = vlib.execution_around(path, pos)
        nxt = ex[rel - 1] if rel - 1 < len(ex) else "(end of trace)"
        replay = ctx.save_replay("trace", "\n".join(ex) + "\n")
        msg = "%s: record %d of the execution is not accepted by %s (%s): %s" % (
            what, rel, tla, ("invariant " + info["violated"]) if (not ok and info.get("violated")) else "no spec action matches", nxt[:600])
        if rc != 0:
            msg += " | driver exit %d: %s" % (rc, out[-600:].replace("\n", " / "))
        ctx.violation(msg, replay)
        break
    return all_ok, lines


def write_script(path, cases, batch=50):
    """One execution (= one line, a JSON array) per `batch` call descriptors."""
    with open(path, "w") as f:
        for i in range(0, len(cases), batch):
            f.write(json.dumps(cases[i:i + batch], separators=(",", ":")) + "\n")


def replay_cases(path):
    """The call descriptors of a saved execution: recorded lines are descriptors (results are ignored by the driver);
    for a call that did not return the announcement line carries the descriptor."""
    cases = []
    for x in open(path).read().split("\n"):
        x = x.strip()
        if not x.startswith("{"):
            continue
        j = json.loads(x)
        if j.get("e") in ("Reset", "Fault"):
            continue
        if j.get("e") == "Call":
            j = dict(j)
            j["e"] = j.pop("what")
        cases.append(j)
    return cases
