# C12 - HTTP server: total, segmentation-independent parsing; in-order responses.
#   models:  spec/Http/HttpParseImpl.tla   incremental parser + leftover-buffer loop, every stream of a token alphabet cut at
#                                           every byte into any number of segments, against the one-shot reference HttpRef
#            spec/Http/HttpPipeline.tla     one connection: dispatch, commit/park/flush, close marking, send-complete
#   binding: spec -> code  TLC-generated (stream, cuts) pairs fed to the real RequestParser through the server_imp loop and to a
#                          real Server over an AF_UNIX socket; TLC-generated pipeline behaviours (segments, completion order and
#                          timing, client close) replayed on a real Server driven pass by pass
#            code -> spec  seeded random well-formed pipelines / hostile streams / long pipelines; all recorded traces validated by
#                          TLC against the contracts (spec/Http/Trace_HttpParse.tla, Trace_HttpPipeline.tla)
#   ASan+UBSan on the harness; exceptions / crashes / sanitizer reports are Fault events that no spec action accepts.
import concurrent.futures as cf
import glob
import json
import os
import random
import re
import threading
import vlib

SRC = vlib.BASE_SRC + [
    "util/buffer.cpp", "util/string.cpp", "util/fd.cpp", "util/fs.cpp",
    "event/loop.cpp", "event/common_loop.cpp", "event/common_loop_run.cpp", "event/common_loop_signal.cpp",
    "event/common_loop_timer.cpp", "event/misc.cpp", "event/stat.cpp", "event/signal_event_impl.cpp", "event/timer_event_impl.cpp",
    "event/engines/select/loop.cpp", "event/engines/select/fd_event.cpp", "event/engines/epoll/loop.cpp", "event/engines/epoll/fd_event.cpp",
    "network/buffered_fd.cpp", "network/sockaddr.cpp", "network/socket_fd.cpp", "network/ip_address.cpp",
    "network/tcp_acceptor.cpp", "network/tcp_connection.cpp", "network/tcp_server.cpp",
    "http/common.cpp", "http/url.cpp", "http/request.cpp", "http/respond.cpp",
    "http/server/request_parser.cpp", "http/server/server.cpp", "http/server/server_imp.cpp", "http/server/context.cpp"]
D = "Http"
PIPE_ACTIONS = ["ArriveAny|Arrive", "ReadEvent", "DispatchAny|DispatchNext", "CompleteAny|HandlerCompletes", "SendCompleted", "PeerCloses",
                "ServerSeesPeerClose", "Quiesce"]
METHODS = ["GET", "HEAD", "PUT", "POST", "TRACE", "OPTIONS", "DELETE"]
SAFE = "abcdefghijklmnopqrstuvwxyzABCDEFGHIJKLMNOPQRSTUVWXYZ0123456789-._~/"
ALNUM = "abcdefghijklmnopqrstuvwxyzABCDEFGHIJKLMNOPQRSTUVWXYZ0123456789"


def cleanup_ttrace():
    for f in glob.glob(os.path.join(vlib.SPEC, D, "*_TTrace_*")):
        try:
            os.remove(f)
        except OSError:
            pass


# ------------------------------------------------------------------------------------------------ generators (seeded)
def gen_request(rnd, close_ok=True, big=False):
    sp = lambda: " " * rnd.choice([1, 1, 1, 2, 3])
    target = "/" + "".join(rnd.choice(SAFE) for _ in range(rnd.choice([0, 1, 3, 8, 20])))
    if rnd.random() < 0.3:
        target += "?" + "".join(rnd.choice(ALNUM) for _ in range(rnd.randint(1, 5))) + "=" + "".join(rnd.choice(ALNUM) for _ in range(rnd.randint(1, 6)))
    ver = rnd.choice(["HTTP/1.1", "HTTP/1.1", "HTTP/1.0", "HTTP/2.0"]) if close_ok else "HTTP/1.1"
    r = rnd.random()
    n = 0 if r < 0.3 else rnd.randint(1, 8) if r < 0.6 else rnd.randint(9, 300)
    if big:
        n = rnd.choice([65536, 65535, 40000, 1024, 4096])
    k = rnd.random()
    if k < 0.5:
        body = bytes(rnd.randrange(256) for _ in range(n))
    elif k < 0.8:
        body = (b"GET / HTTP/1.1\r\nContent-Length: 5\r\n\r\n" * (n // 30 + 1))[:n]
    else:
        body = (b"\r\n" * n)[:n]
    hdrs = []
    for _ in range(rnd.choice([0, 0, 1, 2, 3, 5, 20])):
        key = "".join(rnd.choice(ALNUM + "-") for _ in range(rnd.randint(1, 12)))
        if key == "Content-Length":
            continue
        val = "".join(chr(rnd.randint(33, 126)) for _ in range(rnd.randint(1, 24)))
        if rnd.random() < 0.3:
            val = val[:len(val) // 2] + rnd.choice([" ", "  ", ": ", " : "]) + val[len(val) // 2:] + "x"
        hdrs.append((key, val))
    if close_ok and rnd.random() < 0.25:
        hdrs.append(("Connection", rnd.choice(["close", "keep-alive", "Keep-Alive", "close, x"])))
    if hdrs and rnd.random() < 0.2:
        hdrs.append((hdrs[0][0], "again"))                         # repeated key: the last value wins
    cl = ("Content-Length", rnd.choice(["%d", "%d", "%d", "0%d", "00%d"]) % n)
    hdrs.insert(rnd.randint(0, len(hdrs)), cl)
    if rnd.random() < 0.1:
        hdrs.insert(0, ("Content-Length", str(n + 1)))            # an earlier, different declaration: the last one counts
    lines = []
    for kx, v in hdrs:
        style = rnd.randrange(5)
        lines.append([kx + ": " + v, kx + ":" + v, kx + " :   " + v + "  ", "  " + kx + ":  " + v, kx + ": " + v + " "][style])
    head = rnd.choice(METHODS) + sp() + target + sp() + ver + "\r\n" + "".join(l + "\r\n" for l in lines) + "\r\n"
    return head.encode("latin-1") + body


def gen_cuts(rnd, n, allow_single=True):
    if n == 0:
        return []
    r = rnd.random()
    if allow_single and n <= 500 and r < 0.25:
        return [1] * n
    if r < 0.35:
        return [n]
    k = min(n - 1, rnd.choice([1, 1, 2, 3, 5, 9]))
    pts = sorted(rnd.sample(range(1, n), k)) if k > 0 else []
    pts = [0] + pts + [n]
    return [pts[i + 1] - pts[i] for i in range(len(pts) - 1)]


HUGE_LENGTHS = ["18446744073709551614", "18446744073709551606", "18446744073709551600", "18446744073709551560", "18446744073709551516",
                "9999999999999999999", "9223372036854775808", "4294967296", "2147483648", "10000000", "18446744073709551000"]


def gen_pending_case(rnd):
    """Well-formed requests followed by one whose declared body length is huge (valid, below SIZE_MAX) and cannot have arrived: the
    requests yielded are the complete ones, however the stream is split (a sum 'position + length' that wraps would hand out a
    request with a cut body for some splits only)."""
    s = b"".join(gen_request(rnd, False) for _ in range(rnd.choice([0, 0, 1, 2])))
    hdrs = rnd.choice([[], ["A: b"], ["Host: h", "X-y: z"], ["K%d: v" % i for i in range(rnd.randint(1, 8))]])
    hdrs.insert(rnd.randint(0, len(hdrs)), "Content-Length: " + rnd.choice(HUGE_LENGTHS))
    s += (rnd.choice(METHODS) + " /p HTTP/1.1\r\n" + "".join(h + "\r\n" for h in hdrs) + "\r\n").encode()
    s += rnd.choice([b"", b"a", b"abc", b"0123456789", bytes(rnd.randrange(256) for _ in range(rnd.randint(1, 120))),
                     b"GET / HTTP/1.1\r\nContent-Length: 0\r\n\r\n"])
    return {"hex": s.hex(), "cuts": gen_cuts(rnd, len(s)), "claim": "wf"}


def gen_wf_case(rnd, close_ok=True, big=False):
    nreq = 1 if big else rnd.choice([1, 1, 2, 2, 3, 5])
    s = b"".join(gen_request(rnd, close_ok, big and i == 0) for i in range(nreq))
    return {"hex": s.hex(), "cuts": gen_cuts(rnd, len(s)), "claim": "wf"}


BAD_LENGTHS = ["x", "-1", "-5", "99999999999999999999", "4294967296", "2147483648", "18446744073709551615", "3x", "x3", "", " ",
               "+3", "0x10", "1e3", "3.0", "\x00", "\xff\xfe", "- 1", "٣"]


def gen_hostile_case(rnd):
    k = rnd.random()
    if k < 0.25:
        s = bytes(rnd.randrange(256) for _ in range(rnd.randint(1, 200)))
    elif k < 0.45:
        toks = [b"GET", b"POST", b" ", b"/a", b"HTTP/1.1", b"HTTP/1.0", b"\r\n", b"\r", b"\n", b"Content-Length", b"Connection", b":",
                b"0", b"3", b"abc", b"close", b"x", b"%", b"%zz", b"?", b"=", b";", b"#", b"HTTP/", b"-1"]
        s = b"".join(rnd.choice(toks) for _ in range(rnd.randint(1, 14)))
    elif k < 0.75:
        bad = rnd.choice(BAD_LENGTHS).encode("utf-8", "replace")
        s = (rnd.choice(METHODS) + " /p HTTP/1.1\r\n").encode() + rnd.choice([b"", b"A: b\r\n"]) + b"Content-Length: " + bad + b"\r\n" + \
            rnd.choice([b"", b"X: y\r\n"]) + b"\r\n" + rnd.choice([b"", b"abc", b"GET / HTTP/1.1\r\nContent-Length: 0\r\n\r\n"])
        if rnd.random() < 0.4:
            s = gen_request(rnd) + s
    else:
        s = bytearray(b"".join(gen_request(rnd) for _ in range(rnd.choice([1, 2]))))
        for _ in range(rnd.choice([1, 1, 2, 4])):
            m = rnd.randrange(4)
            p = rnd.randrange(len(s))
            if m == 0:
                del s[p]
            elif m == 1:
                s.insert(p, rnd.randrange(256))
            elif m == 2:
                s[p] = rnd.randrange(256)
            else:
                s = s[:p]
            if not s:
                s = bytearray(b"G")
        s = bytes(s)
    return {"hex": s.hex(), "cuts": gen_cuts(rnd, len(s))}


def gen_pipe_script(rnd):
    nreq = rnd.randint(2, 10)
    close_at = rnd.randint(1, nreq) if rnd.random() < 0.6 else 0
    ops, n, held, pending_seg = [], 0, [], []
    big = rnd.random() < 0.15

    def flush_some(p):
        rnd.shuffle(held)
        while held and rnd.random() < p:
            ops.append({"op": "complete", "i": held.pop()})
    while n < nreq:
        k = min(nreq - n, rnd.choice([1, 1, 2, 3, 4]))
        reqs = []
        for _ in range(k):
            n += 1
            c = rnd.choice([1, 2]) if n == close_at else 0
            cb = []
            if held and rnd.random() < 0.25:
                cb.append(held.pop(rnd.randrange(len(held))))
            if rnd.random() < 0.45:
                cb.append(n)
            else:
                held.append(n)
            sz = rnd.choice([100000, 300000, 700000]) if big and rnd.random() < 0.5 else rnd.choice([0, 0, 10, 2000])
            reqs.append({"c": c, "cb": cb, "sz": sz})
        ops.append({"op": "seg", "reqs": reqs})
        for _ in range(rnd.choice([0, 1, 1, 2, 3])):
            ops.append({"op": "pass"})
            flush_some(0.4)
        if rnd.random() < 0.05:
            ops.append({"op": "peerclose"})
    ops.append({"op": rnd.choice(["pass", "settle"])})
    while held:
        flush_some(0.7)
        ops.append({"op": "pass"})
    return {"mode": "pipe", "ops": ops}


def hist_to_script(hist, c2):
    """TLC history (Gen_HttpPipeline) -> driver script. A request nobody planned a completion for (the model never handed it to
    a handler) gets the plan 'complete at once', so that a server which does hand it out is seen answering it."""
    ops, plan, n = [], {}, 0
    for h in hist:
        if h["op"] == "seg":
            reqs = []
            for f in h["fs"]:
                n += 1
                r = {"c": (2 if (f == 1 and c2) else f), "cb": [n], "sz": 0}
                plan[n] = r
                reqs.append(r)
            ops.append({"op": "seg", "reqs": reqs})
        elif h["op"] == "cb":
            plan[h["n"]]["cb"] = list(h["cb"])
        elif h["op"] == "complete":
            ops.append({"op": "complete", "i": h["i"]})
        else:
            ops.append({"op": h["op"]})
    return {"mode": "pipe", "ops": ops}


# ------------------------------------------------------------------------------------------------ running
def write_jsonl(path, items):
    with open(path, "w") as f:
        for it in items:
            f.write(json.dumps(it) + "\n")


def chunks(items, n):
    n = max(1, min(n, len(items)))
    size = (len(items) + n - 1) // n
    return [items[i:i + size] for i in range(0, len(items), size)]


def run_cases(ctx, exe, tasks):
    """tasks: (mode, cases, tag, (tla, cfg), replayed, parts). Execute the cases on the real code (driver mode parse|srv) and have
    TLC validate the recorded traces; all chunks of all tasks share one thread pool."""
    units = []
    for mode, cases, tag, spec, replayed, parts in tasks:
        for idx, part in enumerate(chunks(cases, parts)):
            units.append((mode, part, "%s_%d" % (tag, idx), spec, replayed))

    def one(u):
        mode, part, name, (tla, cfg), replayed = u
        sp, tr = ctx.tmp(name + ".jsonl"), ctx.tmp(name + ".ndjson")
        write_jsonl(sp, part)
        ok, n = vlib.record_and_validate(ctx, exe, [mode, sp, tr], tr, D, tla, cfg, "%s: %d executions on the real code" % (name, len(part)),
                                         tlc_env={"JAVA_TOOL_OPTIONS": "-Xss64m"})
        return ok, n, replayed
    with cf.ThreadPoolExecutor(max_workers=max(1, min(len(units), vlib.NCPU, 8))) as ex:
        res = list(ex.map(one, units))
    for ok, n, replayed in res:
        if ok and replayed:
            ctx.traces_ok -= n
            ctx.replays_ok += n
    cleanup_ttrace()
    return all(r[0] for r in res)


def replay(ctx, exe):
    lines = [json.loads(x) for x in open(ctx.replay_path) if x.strip().startswith("{")]
    first = next((e for e in lines if e.get("e") in ("Stream", "Begin")), None)
    if first is None:
        m = re.search(r"mc-(\w+?)_tla_(\w+?)_cfg", os.path.basename(ctx.replay_path))
        if not m:
            raise vlib.Infra("replay file holds neither an execution of the driver nor a model-checking counterexample")
        ctx.tlc_mc(D, m.group(1) + ".tla", m.group(2) + ".cfg", coverage=False, timeout=1800)      # model-level violation: re-run that model
        cleanup_ttrace()
        return
    if first["e"] == "Begin":
        run_cases(ctx, exe, [("srv", [first["script"]], "replay", ("Trace_HttpPipeline.tla", "Trace_HttpPipeline.cfg"), True, 1)])
    else:
        case = {"hex": bytes(first["bytes"]).hex(), "cuts": first["cuts"], "claim": first.get("claim", "any")}
        if first["mode"] == "srv":
            case["mode"] = "stream"
        run_cases(ctx, exe, [("srv" if first["mode"] == "srv" else "parse", [case], "replay", ("Trace_HttpParse.tla", "Trace_HttpParse.cfg"), True, 1)])


def run(ctx):
    lock = threading.Lock()
    orig_metadir = ctx.metadir

    def metadir():                       # ctx.metadir is not thread-safe; trace chunks are validated in parallel
        with lock:
            return orig_metadir()
    ctx.metadir = metadir
    exe = vlib.build("c12_http", SRC, ["c12_http/driver.cpp"], flavour="asan", defines=vlib.BASE_DEFS + ["HAVE_EPOLL=1"])
    ctx.fault_observers = ["AddressSanitizer+UBSan on the harness build (every parse() call gets an exactly sized heap copy of its input)",
                           "terminate handler (uncaught exceptions), SIGSEGV/SIGABRT/SIGBUS handlers"]
    PT = ("Trace_HttpParse.tla", "Trace_HttpParse.cfg")
    QT = ("Trace_HttpPipeline.tla", "Trace_HttpPipeline.cfg")
    if ctx.replay_path:
        replay(ctx, exe)
        return
    q = ctx.quick()
    rnd = random.Random(ctx.seed * 7919 + 12)
    par = max(1, min(8, vlib.NCPU))

    def parts_for(n):                    # chunks of at most ~5000 executions, at least one per worker
        return max(par, (n + 4999) // 5000)

    # 1. the designs; 2./4. the generators ------------------------------------------------------------------------------------------
    def mc(args):
        tla, cfg, kw = args
        if tla.startswith("Gen_"):
            return ctx.tlc_gen(D, tla, cfg, workers=max(2, vlib.NCPU // 2), **kw)
        return ctx.tlc_mc(D, tla, cfg, workers=max(2, vlib.NCPU // 2), **kw)
    jobs = [("MC_HttpParse.tla", "MC_parse_wf_quick.cfg" if q else "MC_parse_wf_thorough.cfg", dict(coverage=False, timeout=1800)),
            ("MC_HttpParse.tla", "MC_parse_hostile_quick.cfg" if q else "MC_parse_hostile_thorough.cfg", dict(coverage=False, timeout=1800)),
            ("MC_HttpParse.tla", "MC_parse_reach_deliver.cfg", dict(expect="NeverDeliversAndEnds", coverage=False)),   # vacuity guards: these
            ("MC_HttpParse.tla", "MC_parse_reach_giveup.cfg", dict(expect="NeverGivesUp", coverage=False)),           # behaviours must exist
            ("MC_HttpParse.tla", "MC_parse_asfound_method.cfg", dict(expect="SegmentationIndependent", coverage=False)),
            ("MC_HttpParse.tla", "MC_parse_asfound_length.cfg", dict(expect="Total", coverage=False)),
            ("MC_HttpPipeline.tla", "MC_pipe_quick.cfg" if q else "MC_pipe_thorough.cfg", dict(required_actions=PIPE_ACTIONS, timeout=1500)),
            ("MC_HttpPipeline.tla", "MC_pipe_asfound_afterclose.cfg", dict(expect="NothingAfterClose", coverage=False)),
            ("MC_HttpPipeline.tla", "MC_pipe_asfound_shutrd.cfg", dict(expect="EachResponseOnce", coverage=False)),
            ("Gen_HttpParse.tla", "Gen_parse_quick.cfg" if q else "Gen_parse_thorough.cfg", dict(timeout=900)),
            ("Gen_HttpPipeline.tla", "Gen_pipe_quick.cfg" if q else "Gen_pipe_thorough.cfg", dict(timeout=1500)),
            ("Gen_HttpPipeline.tla", "Gen_pipe_peer.cfg", dict(timeout=900))]
    if not q:
        jobs.append(("Gen_HttpPipeline.tla", "Gen_pipe_sim.cfg", dict(simulate=(1000000, 40), timeout=60, limit=30000)))
    with cf.ThreadPoolExecutor(max_workers=2 if vlib.NCPU < 8 else 4) as ex:
        out = list(ex.map(mc, jobs))
    cleanup_ttrace()
    ctx.exhaustive = True
    pairs = sorted(out[9], key=lambda b: json.dumps(b, sort_keys=True))
    hists = sorted([h for o in out[10:] for h in o], key=lambda h: json.dumps(h, sort_keys=True))
    tasks = []

    # 2. parsing, spec -> code: every (stream, cuts) pair of the bounded scope -----------------------------------------------
    cases = [{"hex": bytes(b["bytes"]).hex(), "cuts": b["cuts"], "claim": b["claim"]} for b in pairs]
    ctx.notes.append("Gen_HttpParse: %d (stream, cuts) pairs executed on RequestParser; every 7th also through a real Server" % len(cases))
    ctx.sample({"kind": "model (stream, cuts) pair executed on the real RequestParser", "stream": bytes(pairs[0]["bytes"]).decode("latin-1"),
                "cuts": pairs[0]["cuts"]})
    tasks.append(("parse", cases, "gen_parse", PT, True, parts_for(len(cases))))
    tasks.append(("srv", [dict(c, mode="stream") for c in cases[::7] if len(c["cuts"]) <= 12], "gen_parse_srv", PT, True, par))

    # 3. parsing, code -> spec: random well-formed pipelines and hostile streams ------------------------------------------------
    nwf, nbig, nhost = (700, 6, 900) if q else (8000, 60, 12000)
    wf = [gen_wf_case(rnd) for _ in range(nwf)] + [gen_wf_case(rnd, big=True) for _ in range(nbig)] + [gen_pending_case(rnd) for _ in range(nwf // 6)]
    host = [gen_hostile_case(rnd) for _ in range(nhost)]
    rnd.shuffle(wf)
    ctx.sample({"kind": "random well-formed pipeline (first 300 bytes) fed to the real parser", "stream": bytes.fromhex(wf[0]["hex"])[:300].decode("latin-1"),
                "cuts": wf[0]["cuts"][:20]})
    ctx.sample({"kind": "hostile stream fed to the real parser", "stream": bytes.fromhex(host[3]["hex"])[:200].decode("latin-1"), "cuts": host[3]["cuts"][:20]})
    tasks.append(("parse", wf, "rnd_wf", PT, False, parts_for(len(wf) * 8)))
    tasks.append(("parse", host, "rnd_hostile", PT, False, parts_for(len(host) * 2)))
    srv_wf = [dict(gen_wf_case(rnd, close_ok=(i % 3 == 0)), mode="stream") for i in range(nwf // 4)]
    srv_wf = [c for c in srv_wf if len(c["cuts"]) <= 40]
    srv_host = [dict(c, mode="stream") for c in host[::4] if len(c["cuts"]) <= 40]
    tasks.append(("srv", srv_wf + srv_host, "rnd_srv", PT, False, par))

    # 4. pipelining, spec -> code: every behaviour of the bounded model replayed on a real Server --------------------------------
    seen, scripts = set(), []
    for i, h in enumerate(hists):
        sc = hist_to_script(h, c2=(i % 2 == 1))
        key = json.dumps(sc, sort_keys=True)
        if sc["ops"] and key not in seen:
            seen.add(key)
            scripts.append(sc)
    ctx.notes.append("Gen_HttpPipeline: %d model behaviours -> %d distinct environment scripts replayed on a real Server" % (len(hists), len(scripts)))
    ctx.sample({"kind": "model pipeline behaviour replayed on a real http::server::Server", "script": scripts[len(scripts) // 2]})
    tasks.append(("srv", scripts, "gen_pipe", QT, True, parts_for(len(scripts) * 2)))

    # 5. pipelining, code -> spec: long random pipelines ---------------------------------------------------------------------------
    rs = [gen_pipe_script(rnd) for _ in range(400 if q else 6000)]
    ctx.sample({"kind": "random pipeline script", "script": rs[0]})
    tasks.append(("srv", rs, "rnd_pipe", QT, False, par))
    run_cases(ctx, exe, tasks)

    ctx.assumptions = [
        "well-formed = the grammar of spec/Http/HttpRef.tla (methods/versions known to the code, target '/'+unreserved with an optional "
        "single ?k=v, header keys alnum/'-', non-empty printable values, exact spelling 'Content-Length' with 1..7 digits); streams "
        "outside it are only required to be handled without Fault and with consumed <= given",
        "the request target is compared through UrlPathToString(req.url) (identity on the generated targets)",
        "segments are delivered one at a time: the client writes a segment and the loop runs until nothing observable happens "
        "(AF_UNIX socket, same process); pipeline scripts control the pass in which a context is released",
        "pipeline requests carry no body; a client that half-closes (shutdown(SHUT_WR)) is not exercised",
    ]
    ctx.uncovered = ["'never hangs' is covered only as: every parse()/loop pass returns (a non-returning call is a harness timeout = "
                     "infrastructure error, not a verdict)",
                     "requests without Content-Length (outside the statement's 'declared body lengths')"]
