# C06 - Buffered descriptor / TCP connection preserves the byte stream.
#   model:   spec/ByteStream/BufferedFd.tla (implementation-shaped: send queue, kernel buffers, write-event arming, threshold,
#            re-presentation, read-zero, TcpConnection's deferred teardown)  -- TLC exhaustive, small scope; as-found and
#            defect-switch configurations must violate the corresponding invariant (non-vacuity).
#   binding: spec -> code: every environment script of the bounded model (send sizes, enable/disable, peer pacing, consumption,
#            close points) and random long ones are executed on the real BufferedFd (pipe pair, AF_UNIX socketpair with minimal
#            SO_SNDBUF) and on real TcpServer / TcpClient connections (AF_UNIX and 127.0.0.1) against a raw non-blocking peer;
#            code -> spec: the recorded traces (public calls, callbacks, write()/read() system calls of the object, what the peer
#            saw, as runs of the stream pattern) are validated by TLC against spec/ByteStream/Trace_BufferedFd.tla.
import json
import os
import random
import re
import time
import vlib

SRC = vlib.BASE_SRC + [
    "event/loop.cpp", "event/common_loop.cpp", "event/common_loop_timer.cpp", "event/common_loop_signal.cpp",
    "event/common_loop_run.cpp", "event/timer_event_impl.cpp", "event/signal_event_impl.cpp", "event/misc.cpp", "event/stat.cpp",
    "event/engines/epoll/loop.cpp", "event/engines/epoll/fd_event.cpp", "event/engines/select/loop.cpp",
    "event/engines/select/fd_event.cpp",
    "util/buffer.cpp", "util/fd.cpp", "util/fs.cpp",
    "network/buffered_fd.cpp", "network/socket_fd.cpp", "network/sockaddr.cpp", "network/ip_address.cpp",
    "network/tcp_connection.cpp", "network/tcp_acceptor.cpp", "network/tcp_connector.cpp", "network/tcp_client.cpp",
    "network/tcp_server.cpp",
]
WRAPPED = ["write", "writev", "send", "sendto", "sendmsg", "read", "readv", "recv", "recvfrom", "recvmsg"]
SPEC = "ByteStream"
MC_ACTIONS = ["Send", "Enable", "Disable", "WritableCb", "CompleteExit", "PeerRead", "PeerWrite", "PeerClose", "PeerAbort", "Bind", "Unbind", "RecvEnter",
              "RecvExit", "ReadZeroEnter", "ReadZeroExit"]
INVS = ["StreamConserved", "SendCompleteOnlyWhenDrained", "Progress", "RecvInOrderOnce", "CloseOnceAfterData", "NoDeleteInCallback"]


def build():
    return vlib.build("c06_bytestream", SRC, ["c06_bytestream/driver.cpp"], flavour="asan",
                      defines=vlib.BASE_DEFS + ["HAVE_EPOLL=1", "HAVE_SELECT=1"],
                      libs=["-Wl,--wrap=" + w for w in WRAPPED])


# ------------------------------------------------------------------------------------------------------------------
# running scripts on the real code and validating the trace
# ------------------------------------------------------------------------------------------------------------------
STATS = {}
RE_W = re.compile(r'"e":"W","req":(\d+),"ret":(-?\d+),"err":(\d+),"again":(true|false)')
RE_RECV = re.compile(r'"e":"Recv","len":(\d+)')
RE_RET = re.compile(r'"e":"RecvRet","c":(\d+)')
RE_SEND = re.compile(r'"e":"Send","n":(\d+)')


def scan(tr):
    """which paths of the statement's quantifier did the recorded executions actually reach (evidence + vacuity guard)"""
    st = STATS
    running = False
    incb = False
    incomp = False
    insend = False
    backlog = False         # a send was not written completely and the backlog has not been reported drained yet
    left = 0
    prev_r_data = False
    wr = pg = sn = rt = cons = lastn = 0
    for line in open(tr):
        was_r_data = prev_r_data
        prev_r_data = line.startswith('{"e":"R",') and '"ret":-1' not in line and '"ret":0,' not in line
        if line.startswith('{"e":"W"'):
            m = RE_W.match(line, 1 - 1) or RE_W.search(line)
            req, ret, again = int(m.group(1)), int(m.group(2)), m.group(4) == "true"
            st["writes"] = st.get("writes", 0) + 1
            if insend and incomp and ret < req:
                st["partial_sends_inside_send_complete"] = st.get("partial_sends_inside_send_complete", 0) + 1
                if backlog:
                    st["partial_sends_inside_send_complete_after_backlog"] = st.get("partial_sends_inside_send_complete_after_backlog", 0) + 1
            if insend and ret < req:
                backlog = True
            if ret > 0:
                wr += ret
            if 0 <= ret < req:
                st["partial_writes"] = st.get("partial_writes", 0) + 1
            if again:
                st["eagain_writes"] = st.get("eagain_writes", 0) + 1
                if not insend:
                    st["eagain_inside_write_callback"] = st.get("eagain_inside_write_callback", 0) + 1
            if ret < 0 and not again:
                st["failed_writes_peer_gone"] = st.get("failed_writes_peer_gone", 0) + 1
        elif line.startswith('{"e":"Send"'):
            n = int(RE_SEND.search(line).group(1))
            lastn = n
            st["sends"] = st.get("sends", 0) + 1
            st["max_send"] = max(st.get("max_send", 0), n)
            if not running:
                st["sends_while_not_enabled"] = st.get("sends_while_not_enabled", 0) + 1
            insend = True
            if incb:
                st["sends_inside_receive_callback"] = st.get("sends_inside_receive_callback", 0) + 1
            if incomp:
                st["sends_inside_send_complete_callback"] = st.get("sends_inside_send_complete_callback", 0) + 1
        elif line.startswith('{"e":"SendRet"'):
            insend = False
            if "true" in line:
                sn += lastn
        elif line.startswith('{"e":"R",'):
            m = re.search(r'"ret":(\d+)', line)
            if m:
                rt += int(m.group(1))
            elif '"again":false' in line:
                st["read_errors_econnreset"] = st.get("read_errors_econnreset", 0) + 1
                if was_r_data:
                    st["read_error_right_after_data_in_one_wakeup"] = st.get("read_error_right_after_data_in_one_wakeup", 0) + 1
        elif line.startswith('{"e":"Shrink","w":"send"'):
            if sn > wr > 0:
                st["shrink_send_buffer_with_backlog"] = st.get("shrink_send_buffer_with_backlog", 0) + 1
        elif line.startswith('{"e":"Shrink","w":"recv"'):
            if rt > cons > 0:
                st["shrink_recv_buffer_with_unconsumed"] = st.get("shrink_recv_buffer_with_unconsumed", 0) + 1
        elif line.startswith('{"e":"Fwd"'):
            n = int(re.search(r'"len":(\d+)', line).group(1))
            st["forwards_to_bound_receiver"] = st.get("forwards_to_bound_receiver", 0) + 1
            if left > 0 and n > left:
                st["forwards_including_bytes_left_by_the_callback"] = st.get("forwards_including_bytes_left_by_the_callback", 0) + 1
            cons += n
            left = 0
        elif line.startswith('{"e":"Recv"'):
            n = int(RE_RECV.search(line).group(1))
            incb = True
            st["presentations"] = st.get("presentations", 0) + 1
            if left > 0 and n > left:
                st["re_presentations_with_later_data"] = st.get("re_presentations_with_later_data", 0) + 1
            left = n
        elif line.startswith('{"e":"RecvRet"'):
            c = int(RE_RET.search(line).group(1))
            left -= c
            cons += c
            incb = False
        elif line.startswith('{"e":"Init"'):
            running = '"tcp":true' in line
            left = 0
            incb = incomp = insend = backlog = False
            wr = pg = sn = rt = cons = lastn = 0
            st["executions"] = st.get("executions", 0) + 1
        elif line.startswith('{"e":"Enable"'):
            running = True
        elif line.startswith('{"e":"Disable"'):
            running = False
        elif line.startswith('{"e":"Close"'):
            st["peer_close_reports"] = st.get("peer_close_reports", 0) + 1
        elif line.startswith('{"e":"PShut","how":3'):
            st["peer_aborts"] = st.get("peer_aborts", 0) + 1
        elif line.startswith('{"e":"PRead"') and '"eof":false' in line:
            pg += int(re.search(r'"n":(\d+)', line).group(1))
        elif line.startswith('{"e":"PRead"') and '"eof":true' in line:
            pg += int(re.search(r'"n":(\d+)', line).group(1))
            k = "peer_saw_eof_after_local_close" if '"err":0' in line else "peer_saw_reset_after_local_close"
            st[k] = st.get(k, 0) + 1
        elif line.startswith('{"e":"Disconnect","ret":true'):
            st["local_disconnects"] = st.get("local_disconnects", 0) + 1
            if wr - pg > 100000:
                st["local_disconnects_with_over_100KB_in_flight"] = st.get("local_disconnects_with_over_100KB_in_flight", 0) + 1
            if incb:
                st["disconnects_inside_receive_callback"] = st.get("disconnects_inside_receive_callback", 0) + 1
        elif line.startswith('{"e":"CompleteRet"'):
            incomp = False
            backlog = False
        elif line.startswith('{"e":"Complete"'):
            incomp = True
            st["send_complete_notifications"] = st.get("send_complete_notifications", 0) + 1


def run_scripts(ctx, exe, execs, tag, engine="epoll", replayed=True, chunk=20000):
    """execs: list of execution dicts {"t","thr","buf","ops"}.  Returns (accepted, trace path)."""
    if len(execs) > chunk:
        ok, tr = True, None
        for i in range(0, len(execs), chunk):
            o, tr = run_scripts(ctx, exe, execs[i:i + chunk], "%s-%d" % (tag, i // chunk), engine, replayed, chunk)
            ok = ok and o
            if not o:
                break       # one rejected execution per family is enough
        return ok, tr
    sp = ctx.tmp(tag + ".jsonl")
    with open(sp, "w") as f:
        for e in execs:
            f.write(json.dumps(e) + "\n")
    tr = ctx.tmp(tag + ".ndjson")
    if os.path.exists(tr):
        os.remove(tr)
    sockdir = ctx.tmp("sock")
    os.makedirs(sockdir, exist_ok=True)
    t = time.time()
    rc, out = vlib.run_harness(exe, [sp, tr, engine, sockdir], timeout=1200)
    if rc == 124:
        raise vlib.Infra("harness timeout (%s)\n%s" % (tag, out[-2000:]))
    if rc == 3:
        raise vlib.Infra("harness infrastructure failure (%s): %s" % (tag, out[-2000:]))
    ctx.log("RUN  %-38s %d executions on %s, %.1fs" % (tag, len(execs), engine, time.time() - t))
    # the trace exists; let the common routine validate it (it re-runs nothing: /bin/true is the 'harness')
    if rc != 0:
        with open(tr, "a") as f:
            f.write('\n{"e":"Fault","kind":"exit","what":"rc=%d"}\n' % rc)
    ok, n = vlib.record_and_validate(ctx, "/bin/true", [], tr, SPEC, "Trace_BufferedFd.tla", "Trace_BufferedFd.cfg",
                                     "%s (%s)" % (tag, engine))
    if rc != 0 and ok:
        ctx.violation("harness died (rc=%d) in %s: %s" % (rc, tag, out[-1500:]), ctx.save_replay("trace", out[-4000:]))
        ok = False
    if ok and replayed:
        ctx.traces_ok -= n
        ctx.replays_ok += n
    if ok:
        scan(tr)
    return ok, tr


# ------------------------------------------------------------------------------------------------------------------
# scripts
# ------------------------------------------------------------------------------------------------------------------
RAW = [("pipe", 4096), ("pipe", 0), ("unix", 1), ("unix", 0)]
TCP = ["tcpsu", "tcpcu", "tcps4", "tcpc4"]


def scale_ops(ops, unit):
    out = []
    for o in ops:
        o = dict(o)
        if "n" in o:
            o["n"] = o["n"] * unit
        if o.get("o") in ("pass", "hook"):
            if o.get("c", -1) > 0:
                o["c"] = o["c"] * unit
            if "in" in o:
                o["in"] = scale_ops(o["in"], unit)
        out.append(o)
    return out


def finish(ops, tcp, enable=True):
    """every script ends by (re-)enabling the descriptor and letting everything settle"""
    ops = list(ops)
    if not tcp and enable:
        ops.append({"o": "enable"})
    ops.append({"o": "settle"})
    return ops


def from_model(beh, transport, buf, unit):
    tcp = transport.startswith("tcp")
    return {"t": transport, "thr": beh["thr"] * unit, "buf": buf, "ops": finish(scale_ops(beh["ops"], unit), tcp)}


def stream_exec(rnd, transport, buf):
    """chunked streaming to a slow reader: the next chunk (and other calls) are issued from inside the send-complete /
    receive callbacks while a backlog exists, so re-entrant sends are partial or hit EAGAIN"""
    tcp = transport.startswith("tcp")
    if tcp:
        chunk = rnd.choice([rnd.randint(1, 2000), rnd.randint(200000, 900000), rnd.randint(2000000, 3500000)])
    elif transport == "pipe":
        chunk = rnd.choice([rnd.randint(1, 300), rnd.randint(4097, 20000), rnd.randint(60000, 200000)])
    else:
        chunk = rnd.choice([rnd.randint(1, 300), rnd.randint(2000, 20000), rnd.randint(100000, 400000)])
    ops = []
    if not tcp:
        ops.append({"o": "enable"})
    inner = [{"o": "send", "n": max(1, chunk + rnd.randint(-chunk // 2, chunk // 2))} for _ in range(rnd.randint(1, 2))]
    if not tcp and rnd.random() < 0.3:
        inner.insert(rnd.randint(0, len(inner)), {"o": rnd.choice(["disable", "enable"])})
    ops.append({"o": "hook", "w": "complete", "in": inner, "times": rnd.randint(1, 5)})
    if rnd.random() < 0.5:
        rin = [{"o": "send", "n": rnd.randint(1, chunk)}]
        if not tcp and rnd.random() < 0.4:
            rin += [{"o": "disable"}, {"o": "send", "n": rnd.randint(1, chunk)}, {"o": "enable"}]
        ops.append({"o": "hook", "w": "recv", "in": rin, "times": rnd.randint(1, 3)})
    ops.append({"o": "send", "n": chunk})
    for _ in range(rnd.randint(2, 14)):
        r = rnd.random()
        if r < 0.10:
            ops.append({"o": rnd.choice(["shrinks", "shrinks", "shrinkr"])})
        elif r < 0.45:
            ops.append({"o": "pass", "c": rnd.choice([-1, -1, 0, 3])})
        elif r < 0.80:
            ops.append({"o": "pread", "n": rnd.choice([rnd.randint(1, 64), rnd.randint(1, max(2, chunk // 3)), chunk])})
        elif r < 0.92:
            ops.append({"o": "pwrite", "n": rnd.randint(1, 5000)})
        else:
            ops.append({"o": "send", "n": rnd.randint(1, chunk)})
    if tcp and rnd.random() < 0.4:       # leave while sent data is still in flight to a reader that has not caught up
        ops.append({"o": "disconnect"})
    return {"t": transport, "thr": rnd.choice([0, 0, 2]), "buf": buf, "ops": finish(ops, tcp)}


def bind_exec(rnd, transport, buf):
    """callback mode that leaves bytes unconsumed (partial record / below the threshold), then bind() to a recording
    ByteStream, more data, unbind(), ...: nothing may be lost or duplicated at the switch-over; shrinkRecvBuffer() in between"""
    tcp = transport.startswith("tcp")
    a = rnd.choice([rnd.randint(2, 40), rnd.randint(100, 6000), rnd.randint(10000, 200000)])
    thr = rnd.choice([0, 0, a + rnd.randint(1, 10), 2])
    ops = [] if tcp else [{"o": "enable"}]
    for _ in range(rnd.randint(1, 3)):
        ops.append({"o": "pwrite", "n": a})
        ops.append({"o": "pass", "c": rnd.choice([0, 1, a // 2, max(1, a - 1)])})
        if rnd.random() < 0.5:
            ops.append({"o": "shrinkr"})
        ops.append({"o": "bind"})
        for _ in range(rnd.randint(1, 2)):
            ops.append({"o": "pwrite", "n": rnd.randint(1, 2 * a)})
            ops.append({"o": "pass", "c": -1})
        if rnd.random() < 0.7:
            ops.append({"o": "unbind"})
    if rnd.random() < 0.3:
        ops.append({"o": "pshut"})
    return {"t": transport, "thr": thr, "buf": buf, "ops": finish(ops, tcp, enable=False)}


def eagain_exec(rnd, transport, buf):
    """EAGAIN inside the write-event callback: the descriptor is reported readable and writable in one pass (a finished
    small send waits for its send-complete, the peer has written); the receive callback sends a block larger than the free
    kernel buffer (direct partial write fills it, the rest is queued); the write callback of the same pass finds it full"""
    tcp = transport.startswith("tcp")
    big = rnd.randint(5000000, 8000000) if tcp else rnd.randint(70000, 400000)
    ops = [] if tcp else [{"o": "enable"}]
    for _ in range(rnd.randint(1, 2)):
        ops += [{"o": "send", "n": rnd.randint(1, 100)}, {"o": "pwrite", "n": rnd.randint(1, 100)},
                {"o": "pass", "c": -1, "w": "recv", "in": [{"o": "send", "n": big}]},
                {"o": "pass", "c": -1}, {"o": "pread", "n": rnd.randint(1, big)}, {"o": "pass", "c": -1},
                {"o": "send", "n": rnd.randint(1, 5000)}, {"o": "settle"}]
    return {"t": transport, "thr": 0, "buf": buf, "ops": finish(ops, tcp)}


def rand_exec(rnd, transport, buf, big):
    """seeded random long script: sizes from 1 byte to several MB, all pacings, close at any point"""
    q = rnd.random()
    if q > 0.95:
        return eagain_exec(rnd, transport, buf)
    if q < 0.2:
        return stream_exec(rnd, transport, buf)
    if q < 0.3 and transport not in ("tcps4", "tcpsu"):
        return bind_exec(rnd, transport, buf)
    tcp = transport.startswith("tcp")
    prof = rnd.choice(["tiny", "mid", "big"] if big else ["tiny", "mid", "mid"])
    cap = {"tiny": 6, "mid": 9000, "big": 3000000}[prof]

    def size():
        r = rnd.random()
        if r < 0.25:
            return rnd.randint(1, 4)
        if r < 0.35 and cap > 4096:
            return rnd.choice([4095, 4096, 4097, 1024, 1025, 65536])
        return rnd.randint(1, cap)
    thr = rnd.choice([0, 0, 1, 2, 5, rnd.randint(1, max(1, cap // 2))])
    ops = []
    running = tcp
    closed = False
    gone = False
    if not tcp and rnd.random() < 0.6:
        ops.append({"o": "enable"})
        running = True
    for _ in range(rnd.randint(4, 28)):
        r = rnd.random()
        if r < 0.30:
            ops.append({"o": "send", "n": size()})
        elif r < 0.42:
            ops.append({"o": "pread", "n": size()})
        elif r < 0.56 and not closed:
            ops.append({"o": "pwrite", "n": size()})
        elif r < 0.60:
            ops.append({"o": rnd.choice(["shrinks", "shrinkr", "shrinkr"])})
        elif r < 0.62 and transport != "tcps4" and transport != "tcpsu":
            ops.append({"o": rnd.choice(["bind", "bind", "unbind"])})
        elif r < 0.84:
            p = {"o": "pass", "c": rnd.choice([-1, -1, 0, 1, 2, size()])}
            q = rnd.random()
            if q < 0.25:
                inner = []
                w = rnd.choice(["recv", "recv", "complete", "close"])
                for _ in range(rnd.randint(1, 2)):
                    k = rnd.random()
                    if k < 0.1:
                        inner.append({"o": rnd.choice(["shrinks", "shrinkr"])})
                    elif k < 0.6:
                        inner.append({"o": "send", "n": size()})
                    elif tcp and k < 0.75:
                        inner.append({"o": "disconnect"})
                    elif not tcp and k < 0.8 and w != "close":
                        inner.append({"o": rnd.choice(["disable", "enable"])})
                    else:
                        inner.append({"o": "send", "n": rnd.randint(1, 3)})
                p["w"] = w
                p["in"] = inner
            ops.append(p)
        elif r < 0.90 and not tcp:
            ops.append({"o": "disable" if running else "enable"})
            running = not running
        elif r < 0.93 and not closed:
            k = rnd.choice(["pshut", "pshut", "pclose", "pabort", "pabort"])
            if k == "pabort" and rnd.random() < 0.7:      # the peer's last bytes and the reset are found in one wake-up
                if rnd.random() < 0.5:
                    ops.append({"o": "send", "n": size()})   # unread input at the peer (AF_UNIX: makes the close a reset)
                ops.append({"o": "pwrite", "n": size()})
            ops.append({"o": k})
            closed = True
        elif r < 0.95 and tcp and not gone:
            ops.append({"o": "disconnect"})
            gone = True
        else:
            ops.append({"o": "pass", "c": -1})
    return {"t": transport, "thr": thr, "buf": buf, "ops": finish(ops, tcp, enable=not closed or rnd.random() < 0.5)}


def parse_replay(path):
    """a replay file is the failing execution's trace; rebuild the stimulus script from it"""
    ops = []
    head = {"t": "unix", "thr": 0, "buf": 1}
    stack = [ops]
    for line in open(path):
        line = line.strip()
        if not line.startswith("{"):
            continue
        e = json.loads(line)
        k = e["e"]
        cur = stack[-1]
        if k == "Init":
            head["t"] = e.get("t", "tcpsu" if e["tcp"] else "unix")
            head["thr"] = e["thr"]
            head["buf"] = e.get("buf", 0)
        elif k == "Send":
            cur.append({"o": "send", "n": e["n"]})
        elif k == "Enable":
            cur.append({"o": "enable"})
        elif k == "Disable":
            cur.append({"o": "disable"})
        elif k == "Disconnect":
            cur.append({"o": "disconnect"})
        elif k == "PRead":
            cur.append({"o": "pread", "n": max(e["n"], 1)})
        elif k == "PWrite":
            cur.append({"o": "pwrite", "n": e["n"]})
        elif k == "PShut":
            cur.append({"o": {1: "pshut", 2: "pclose", 3: "pabort"}[e["how"]]})
        elif k == "Recv":
            p = {"o": "pass", "c": -1, "w": "recv", "in": []}
            cur.append(p)
            stack.append(p["in"])
        elif k == "RecvRet":
            stack.pop()
            stack[-1][-1]["c"] = e["c"]
        elif k in ("Complete", "Close"):
            p = {"o": "pass", "c": -1, "w": "complete" if k == "Complete" else "close", "in": []}
            cur.append(p)
            stack.append(p["in"])
        elif k in ("CompleteRet", "CloseRet"):
            if len(stack) > 1:
                stack.pop()
        elif k in ("W", "R"):
            if len(stack) == 1 and (not cur or cur[-1].get("o") != "pass"):
                cur.append({"o": "pass", "c": -1})
        elif k == "Shrink":
            cur.append({"o": "shrinks" if e["w"] == "send" else "shrinkr"})
        elif k in ("Bind", "Unbind"):
            cur.append({"o": k.lower()})
        elif k == "Fwd":
            if len(stack) == 1 and (not cur or cur[-1].get("o") != "pass"):
                cur.append({"o": "pass", "c": -1})
        elif k == "Settled":
            cur.append({"o": "settle"})
    if not ops or ops[-1].get("o") != "settle":
        ops.append({"o": "settle"})
    head["ops"] = ops
    return head


# ------------------------------------------------------------------------------------------------------------------
def gen_sim(ctx, cfg, num, depth, limit):
    """random deep behaviours of the model (-simulate), deterministic for a fixed VERIF_SEED (one worker, -seed)"""
    d = os.path.join(vlib.SPEC, SPEC)
    cmd = vlib._tlc_cmd("Gen_BufferedFd.tla", cfg, ctx.metadir(), 1,
                        ["-simulate", "num=%d" % num, "-depth", str(depth), "-seed", str(ctx.seed)], ("-Xmx4g",))
    t = time.time()
    rc, out = vlib.sh(cmd, timeout=300, cwd=d)
    if rc != 0:
        raise vlib.Infra("TLC simulate failed rc=%d %s\n%s" % (rc, cfg, out[-2000:]))
    seen, res = set(), []
    for line in out.splitlines():
        line = line.strip()
        if not line.startswith('"'):
            continue
        try:
            b = json.loads(line)
        except Exception:
            continue
        if isinstance(b, str) and b.startswith("BEH ") and b not in seen:
            seen.add(b)
            res.append(json.loads(b[4:]))
            if len(res) >= limit:
                break
    if not res:
        raise vlib.Infra("simulation produced no behaviours (%s)" % cfg)
    ctx.mc_runs.append({"model": "Gen_BufferedFd.tla/" + cfg, "expect": "generate", "behaviours": len(res),
                        "wall_s": round(time.time() - t, 1), "mode": "simulate (seeded)"})
    ctx.log("GEN %-40s behaviours=%d (simulate, seed %d) %.1fs" % ("Gen_BufferedFd.tla/" + cfg, len(res), ctx.seed, time.time() - t))
    return res


def temporal_mc(ctx, cfg, expect_violation):
    """liveness configurations; vlib's parser does not know TLC's 'Temporal property X was violated' line"""
    d = os.path.join(vlib.SPEC, SPEC)
    cmd = vlib._tlc_cmd("MC_BufferedFd.tla", cfg, ctx.metadir(), min(vlib.NCPU, 4), [], ("-Xmx4g",))
    t = time.time()
    rc, out = vlib.sh(cmd, timeout=600, cwd=d)
    if rc == 124:
        raise vlib.Infra("TLC timeout on " + cfg)
    r = vlib._parse_tlc(out)
    m = re.search(r"Temporal property (\w+) was violated|Temporal properties were violated", out)
    lab = "MC_BufferedFd.tla/" + cfg
    ctx.states += r["distinct"]
    ctx.transitions += r["states"]
    if expect_violation:
        if not m:
            raise vlib.Infra("expected %s to violate the liveness property (non-vacuity)\n%s" % (lab, out[-2000:]))
    else:
        if m or r["violated"]:
            ctx.violation("model %s violates %s" % (lab, m.group(1) if m else r["violated"]), ctx.save_replay("mc-" + cfg, out))
        elif rc != 0:
            raise vlib.Infra("TLC failed (rc=%d) on %s\n%s" % (rc, lab, out[-3000:]))
    ctx.mc_runs.append({"model": lab, "expect": ("violates Delivered" if expect_violation else "ok (PROPERTIES Delivered Received under FairSpec)"),
                        "distinct_states": r["distinct"], "states_generated": r["states"], "depth": r["depth"],
                        "wall_s": round(time.time() - t, 1), "mode": "bfs-exhaustive + liveness"})
    ctx.log("TLC %-40s %s distinct=%d %.1fs" % (lab, "violates Delivered (expected)" if expect_violation else "ok (liveness)",
                                              r["distinct"], time.time() - t))


def run(ctx):
    exe = build()
    ctx.fault_observers = ["AddressSanitizer+UBSan on the harness build (use of a destroyed connection / buffered descriptor, buffer bounds)",
                           "terminate/signal handlers, TBOX_ASSERT (cb_level_ == 0 in the destructors)"]
    if ctx.replay_path:
        ex = parse_replay(ctx.replay_path)
        run_scripts(ctx, exe, [ex], "replay", replayed=True)
        return
    quick = ctx.quick()
    rnd = random.Random(ctx.seed)

    # 1. the design -------------------------------------------------------------------------------------------------
    if os.environ.get("C06_DEV_SKIP_MODEL"):        # development aid only (mutant screening); never set by bin/check users
        ctx.notes.append("model checking skipped (C06_DEV_SKIP_MODEL)")
    else:
        model_checks(ctx, quick)
    binding(ctx, exe, quick, rnd)


def model_checks(ctx, quick):
    ctx.tlc_mc(SPEC, "MC_BufferedFd.tla", "MC_quick.cfg", required_actions=MC_ACTIONS)
    ctx.tlc_mc(SPEC, "MC_BufferedFd.tla", "MC_quick_tcp.cfg", required_actions=["LocalDisconnect", "RunNextDelete", "ReadZeroEnter"])
    ctx.tlc_mc(SPEC, "MC_BufferedFd.tla", "MC_asfound.cfg", expect="Progress", coverage=False)
    bugs = [("MC_bug_fastpath.cfg", "RecvInOrderOnce"), ("MC_bug_latedisarm.cfg", "Progress"), ("MC_bug_errorfirst.cfg", "CloseOnceAfterData"),
            ("MC_bug_linger0.cfg", "StreamConserved"), ("MC_bug_directq.cfg", "StreamConserved"), ("MC_bug_complete.cfg", "SendCompleteOnlyWhenDrained"),
            ("MC_bug_norepresent.cfg", "RecvInOrderOnce"), ("MC_bug_eofrepeat.cfg", "CloseOnceAfterData"),
            ("MC_bug_deletenow.cfg", "NoDeleteInCallback"), ("MC_bug_readall.cfg", "StreamConserved")]
    for cfg, inv in (bugs[:5] if quick else bugs):
        ctx.tlc_mc(SPEC, "MC_BufferedFd.tla", cfg, expect=inv, coverage=False)
    temporal_mc(ctx, "MC_live.cfg", False)
    temporal_mc(ctx, "MC_live_asfound.cfg", True)
    temporal_mc(ctx, "MC_live_latedisarm.cfg", True)
    if not quick:
        temporal_mc(ctx, "MC_live_tcp.cfg", False)
        for cfg in ("MC_thorough.cfg", "MC_thorough_k2.cfg", "MC_thorough_tcp.cfg"):
            ctx.tlc_mc(SPEC, "MC_BufferedFd.tla", cfg, coverage=False, timeout=1500)



def binding(ctx, exe, quick, rnd):
    # 2. spec -> code: the environment scripts of the bounded model -----------------------------------------------------
    behs = ctx.tlc_gen(SPEC, "Gen_BufferedFd.tla", "Gen_raw.cfg")
    behs_tcp = ctx.tlc_gen(SPEC, "Gen_BufferedFd.tla", "Gen_tcp.cfg")
    ctx.exhaustive = True
    ctx.notes.append("Gen_raw: %d distinct environment scripts (depth-bounded, exhaustive); Gen_tcp: %d" % (len(behs), len(behs_tcp)))
    ctx.sample({"kind": "model environment script replayed on the real BufferedFd", "script": behs[len(behs) // 2]})
    execs = []
    units = [1, 1500, 70000]
    for i, b in enumerate(behs):
        combos = [(t, buf, u) for (t, buf) in RAW for u in units]
        # every script is executed; the (transport, buffer, unit) regimes rotate over the scripts
        combos = [combos[(i * 5 + k * 7) % len(combos)] for k in range(1 if quick else 4)]
        for (t, buf, u) in combos:
            execs.append(from_model(b, t, buf, u))
    run_scripts(ctx, exe, execs, "gen-raw")
    execs = []
    for i, b in enumerate(behs_tcp):
        combos = [(t, u) for t in TCP for u in (1, 1500, 300000)]
        combos = [combos[(i * 5 + k * 7) % len(combos)] for k in range(1 if quick else 4)]
        for (t, u) in combos:
            execs.append(from_model(b, t, 0, u))
    if quick:
        execs = rnd.sample(execs, 900)
    run_scripts(ctx, exe, execs, "gen-tcp")
    # random deep behaviours of the model
    nsim = 250 if quick else 3000
    deep = gen_sim(ctx, "Gen_sim.cfg", nsim * 2, 16, nsim)
    deep_tcp = gen_sim(ctx, "Gen_sim_tcp.cfg", nsim, 14, nsim // 2)
    ctx.sample({"kind": "random deep model behaviour", "script": deep[0]})
    execs = [from_model(b, *RAW[i % len(RAW)], unit=units[(i // 4) % 3]) for i, b in enumerate(deep)] + \
            [from_model(b, TCP[i % len(TCP)], 0, (1, 1500, 300000)[(i // 4) % 3]) for i, b in enumerate(deep_tcp)]
    run_scripts(ctx, exe, execs, "gen-sim")

    # 3. code -> spec: seeded random long scripts ------------------------------------------------------------------------
    n_raw, n_tcp, n_sel = (900, 400, 150) if quick else (9000, 2500, 1500)
    execs = [rand_exec(rnd, *rnd.choice(RAW), big=(i % 10 == 0)) for i in range(n_raw)]
    ok, tr = run_scripts(ctx, exe, execs, "random-raw", replayed=False)
    ctx.sample({"kind": "recorded trace (first events)", "events": [json.loads(x) for x in vlib.read_lines(tr, 1, 12)]})
    execs = [rand_exec(rnd, rnd.choice(TCP), 0, big=(i % 8 == 0)) for i in range(n_tcp)]
    run_scripts(ctx, exe, execs, "random-tcp", replayed=False)
    execs = [rand_exec(rnd, *rnd.choice(RAW), big=False) for i in range(n_sel)] + \
            [rand_exec(rnd, rnd.choice(TCP[:2]), 0, big=False) for i in range(n_sel // 3)]
    run_scripts(ctx, exe, execs, "random-select", engine="select", replayed=False)

    ctx.notes.append("paths reached by the accepted executions: " + json.dumps(STATS, sort_keys=True))
    if not ctx.violations:
        for k in ("partial_writes", "eagain_writes", "sends_while_not_enabled", "re_presentations_with_later_data", "peer_close_reports",
                  "local_disconnects", "sends_inside_receive_callback", "disconnects_inside_receive_callback",
                  "send_complete_notifications", "sends_inside_send_complete_callback",
                  "partial_sends_inside_send_complete_after_backlog", "peer_aborts",
                  "read_error_right_after_data_in_one_wakeup", "peer_saw_eof_after_local_close",
                  "local_disconnects_with_over_100KB_in_flight", "shrink_send_buffer_with_backlog", "eagain_inside_write_callback",
                  "shrink_recv_buffer_with_unconsumed", "forwards_including_bytes_left_by_the_callback"):
            if STATS.get(k, 0) == 0:
                raise vlib.Infra("vacuity guard: no recorded execution reached '%s'" % k)
        if STATS.get("max_send", 0) < 1000000:
            raise vlib.Infra("vacuity guard: no send of at least 1 MB was executed")
    ctx.assumptions = [
        "bytes in both directions are the stream pattern p % 251 and are compared as maximal runs (a loss of an exact multiple of "
        "251 bytes is caught by the length laws, not by content)",
        "the object's traffic is observed at the write/writev/send*/read/readv/recv* symbols (linker --wrap); an implementation "
        "that moved to other system calls (splice, io_uring) would need them added to the wrapper list",
        "raw BufferedFd: the read-zero callback disables the descriptor (what TcpConnection, the only user in the repository, "
        "does); without that the level-triggered read event reports end-of-file on every pass (model: MC_bug_eofrepeat.cfg)",
        "'pclose' drains the peer's input before closing, 'pabort' resets the connection (SO_LINGER 0); after a reset (peer abort, "
        "EPIPE/ECONNRESET) bytes the peer wrote may be discarded by the kernel and completeness of the received stream is not "
        "demanded; after a peer close the fate of bytes still queued for sending is not constrained",
        "quiescence ('Settled') is reached by running loop passes and peer reads until 4 consecutive passes log nothing; only on "
        "loopback TCP the driver additionally waits (<= 3 s, 5 ms steps; observed: <= 50 ms, Nagle + delayed ACK) while data is known to be in flight",
    ]
    ctx.uncovered = [
        "bind() mode through TcpServer (it has no bind()); a bound receiver that unbinds from inside its send()",
        "that a send-complete notification is eventually delivered is not demanded (the statement only restricts when it may fire)",
        "local disconnect: bytes still in the object's own queue at that moment are dropped by design (bytes already written to the "
        "descriptor must arrive, followed by end-of-file, when the close is clean)",
    ]
