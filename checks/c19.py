# C19 - Codecs are exact bounded inverses; checksums, MD5, AES match the standards.
#   model:   spec/Codecs/{Base64,Hex,Scalable,Url,Sums,Md5,Aes}.tla  reference operators (no tables: CRC = bitwise division,
#            MD5 over 16-bit limbs, AES S-box from the GF(2^8) inverse);  Laws.tla: inverse / size / failure laws and the published
#            check values, exhaustive over small hostile domains;  B64Impl / ScalImpl / MC_Serializer: implementation-shaped
#            state machines (decode loop, parse loop, bounds rule) with as-found switches that must violate their invariant.
#   binding: spec -> code: every case of the bounded domains (Gen_Codecs) and random call sequences of the serializer model
#            (Gen_Serializer) are executed on the real functions;  code -> spec: seeded random calls (boundary-heavy inputs,
#            damaged encodings, capacities exact / one short / zero).  Every recorded call is validated by TLC against
#            spec/Codecs/Trace_Codecs.tla.  Output areas are exactly sized heap blocks (ASan) or lie between guard regions.
import glob
import json
import os
import vlib

SRC = vlib.BASE_SRC + ["util/base64.cpp", "util/string.cpp", "util/scalable_integer.cpp", "util/serializer.cpp", "util/crc.cpp",
                       "util/checksum.cpp", "http/url.cpp", "crypto/md5.cpp", "crypto/aes.cpp"]
JVM = ("-Xmx6g", "-Xss64m")          # the reference operators recurse over their input: TLC needs a deeper Java stack
SPEC = "Codecs"
STATELESS = "B64Enc,B64Dec,HexEnc,HexDecBuf,HexDecVec,ScalEnc,ScalDec,UrlEnc,UrlDec,Sum8,Sum16,Crc16,Crc32"


def cleanup_ttrace():
    for f in glob.glob(os.path.join(vlib.SPEC, SPEC, "*_TTrace_*")):
        try:
            os.remove(f)
        except OSError:
            pass


def tidy(raw_path, trace_path, rc):
    """The driver announces every call ({"e":"Call"}) before making it and flushes each line.  Keep an announcement only
    when the call did not return (process died inside it): it is then followed by a Fault line that no spec action accepts."""
    lines = [x for x in open(raw_path, errors="replace").read().split("\n") if x.strip()]
    if lines:
        try:
            json.loads(lines[-1])
        except ValueError:
            lines.pop()                                    # a partially written last line
    out = []
    for i, x in enumerate(lines):
        if x.startswith('{"e":"Call"') and i + 1 < len(lines) and not lines[i + 1].startswith('{"e":"Fault"'):
            continue
        out.append(x)
    died = bool(out) and out[-1].startswith('{"e":"Call"')
    if died or (rc != 0 and not (out and out[-1].startswith('{"e":"Fault"'))):
        out.append('{"e":"Fault","kind":"exit","what":"driver exit code %d"}' % rc)
    with open(trace_path, "w") as f:
        f.write("\n".join(out) + "\n")
    return out


def run_and_validate(ctx, exe, args, trace, what, count_as="trace"):
    """args: driver arguments with the placeholder "@OUT" for the output file."""
    raw = trace + ".raw"
    rc, out = vlib.run_harness(exe, [raw if a == "@OUT" else a for a in args], timeout=600)
    if rc == 124:
        raise vlib.Infra("driver timeout (%s)" % what)
    if rc == 3 or not os.path.exists(raw):
        raise vlib.Infra("driver usage/IO error rc=%d (%s)\n%s" % (rc, what, out[-1500:]))
    lines = tidy(raw, trace, rc)
    n_exec = sum(1 for x in lines if '"e":"Reset"' in x)
    ok, info = ctx.tlc_trace(SPEC, "Trace_Codecs.tla", "Trace_Codecs.cfg", trace, n_exec, what=what, jvm=JVM)
    if ok and rc == 0:
        if count_as == "replay":
            ctx.traces_ok -= n_exec
            ctx.replays_ok += n_exec
        return True, lines
    pos = (info.get("maxpos") or 1) if not ok else len(lines)
    ex, rel = vlib.execution_around(trace, pos)
    nxt = ex[rel - 1] if rel - 1 < len(ex) else "(end of trace)"
    replay = ctx.save_replay("trace", "\n".join(ex) + "\n")
    msg = "%s: record %d of the execution is not accepted by Trace_Codecs (%s): %s" % (
        what, rel, ("invariant " + info["violated"]) if (not ok and info.get("violated")) else "no spec action matches", nxt[:500])
    if rc != 0:
        msg += " | driver exit %d: %s" % (rc, out[-600:].replace("\n", " / "))
    ctx.violation(msg, replay)
    return False, lines


def write_script(path, cases):
    with open(path, "w") as f:
        for c in cases:
            f.write(json.dumps(c) + "\n")


def run(ctx):
    try:
        _run(ctx)
    finally:
        cleanup_ttrace()


def _run(ctx):
    exe = vlib.build("c19_codecs", SRC, ["c19_codecs/driver.cpp"], flavour="asan", defines=vlib.BASE_DEFS)
    ctx.fault_observers = ["AddressSanitizer (exactly sized heap blocks for every input and, in `exact` mode, every output area)",
                           "UndefinedBehaviorSanitizer (array bounds of the decoder tables, shifts)",
                           "terminate/signal handlers; a call that does not return leaves its Call line + Fault in the trace"]
    quick = ctx.quick()
    if ctx.replay_path:
        cases = [x for x in open(ctx.replay_path).read().split("\n") if x.strip().startswith("{")]
        sp = ctx.tmp("replay.jsonl")
        with open(sp, "w") as f:
            f.write("\n".join(cases) + "\n")
        for mode in ("exact", "guard"):
            tr = ctx.tmp("replay_%s.ndjson" % mode)
            run_and_validate(ctx, exe, ["script", sp, "@OUT", mode], tr, "replay (%s buffers)" % mode, count_as="replay")
        return

    # 1. the design -------------------------------------------------------------------------------------------------------
    ctx.tlc_mc(SPEC, "Laws.tla", "MC_Laws.cfg" if not quick else "MC_Laws_quick.cfg", jvm=JVM,
               required_actions=["PickB64Bytes", "PickB64Chars", "PickHexBytes", "PickHexChars", "PickScalValue", "PickScalBytes",
                                 "PickUrlBytes", "PickUrlChars", "PickSum", "PickSumBoundary", "PickMd5", "PickAes", "PickSbox"])
    ctx.tlc_mc(SPEC, "MC_B64Impl.tla", "MC_B64Impl_ok.cfg", jvm=JVM, required_actions=["Call", "Step", "Finish"])
    ctx.tlc_mc(SPEC, "MC_ScalImpl.tla", "MC_ScalImpl_ok.cfg", jvm=JVM, required_actions=["Call", "Step", "Incomplete", "Table"])
    ctx.tlc_mc(SPEC, "MC_Serializer.tla", "MC_Serializer_quick.cfg" if quick else "MC_Serializer_thorough.cfg", jvm=JVM, timeout=1500,
               required_actions=["MSerNew", "MSerEndian", "MSerPut", "MTransfer", "MDesNew", "MDesEndian", "MDesGet", "MDesNoCopy",
                                 "MDesSkip", "MDesSetPos"])
    # as-found configurations: the repaired defects, reproduced at model level, must violate their invariant (non-vacuity)
    for cfg, inv in (("MC_B64Impl_write.cfg", "NoWriteBeyondCap"), ("MC_B64Impl_index.cfg", "TableIndexInRange"),
                     ("MC_B64Impl_pad.cfg", "ResultConforms")):
        ctx.tlc_mc(SPEC, "MC_B64Impl.tla", cfg, expect=inv, jvm=JVM, coverage=False)
    for cfg, inv in (("MC_ScalImpl_loop.cfg", "TableIndexInRange"), ("MC_ScalImpl_wrap.cfg", "ResultConforms")):
        ctx.tlc_mc(SPEC, "MC_ScalImpl.tla", cfg, expect=inv, jvm=JVM, coverage=False)
    ctx.tlc_mc(SPEC, "MC_Serializer.tla", "MC_Serializer_wrap.cfg", expect="BoundsRuleAndRoundTrip", jvm=JVM, coverage=False)
    ctx.tlc_mc(SPEC, "Md5Count.tla", "MC_Md5Count_ok.cfg", jvm=JVM, required_actions=["Update|CNext"])
    ctx.tlc_mc(SPEC, "Md5Count.tla", "MC_Md5Count_wide.cfg", expect="CountIsBitLength", jvm=JVM, coverage=False)
    #   "one fold of the carries is enough" must be refuted on the carry-boundary checksum domain (the domain reaches the second carry)
    ctx.tlc_mc(SPEC, "Laws.tla", "MC_Laws_singlefold.cfg", expect="SingleFoldSuffices", jvm=JVM, coverage=False)
    cleanup_ttrace()

    # 2. spec -> code: every case of the bounded domains on the real functions ------------------------------------------------
    cases = ctx.tlc_gen(SPEC, "Gen_Codecs.tla", "Gen_Codecs.cfg" if quick else "Gen_Codecs_thorough.cfg", jvm=JVM)
    cases = [b[0] for b in cases]
    ctx.exhaustive = True
    ctx.notes.append("Gen_Codecs: %d cases (all byte strings / hostile decoder inputs of the bounded domains x capacities "
                     "exact, one short, zero, one more), executed in batches of 50 calls per execution" % len(cases))
    ctx.sample({"kind": "model case executed on the real function", "call": cases[len(cases) // 3]})
    sp = ctx.tmp("gen_cases.jsonl")
    write_script(sp, cases)
    tr = ctx.tmp("gen_cases.ndjson")
    ok, lines = run_and_validate(ctx, exe, ["script", sp, "@OUT", "exact"], tr, "%d model cases, exact buffers" % len(cases), count_as="replay")
    if ok:
        ctx.sample({"kind": "recorded call (validated by TLC)", "event": json.loads(lines[len(lines) // 2])})
    if not quick:
        tr = ctx.tmp("gen_cases_guard.ndjson")
        run_and_validate(ctx, exe, ["script", sp, "@OUT", "guard"], tr, "%d model cases, guarded buffers" % len(cases), count_as="replay")
    #    ... and call sequences of the serializer model
    behs = ctx.tlc_gen(SPEC, "Gen_Serializer.tla", "Gen_Serializer_bfs.cfg", jvm=JVM)
    try:
        deep = ctx.tlc_gen(SPEC, "Gen_Serializer.tla", "Gen_Serializer.cfg", simulate=(1000000, 10), timeout=8 if quick else 40, jvm=JVM,
                           limit=3000 if quick else 60000, workers=2)
    except vlib.Infra:            # a loaded machine: the JVM was not up within the window - give it more time once
        deep = ctx.tlc_gen(SPEC, "Gen_Serializer.tla", "Gen_Serializer.cfg", simulate=(1000000, 10), timeout=60, jvm=JVM,
                           limit=3000 if quick else 60000, workers=2)
    ctx.notes.append("Gen_Serializer: %d call sequences of length 3 (exhaustive, BFS) + %d random sequences of length 10" % (len(behs), len(deep)))
    ctx.sample({"kind": "serializer model behaviour replayed on the real classes", "script": deep[0]})
    sp = ctx.tmp("gen_ser.jsonl")
    write_script(sp, behs + deep)
    for mode in (("guard",) if quick else ("guard", "exact")):
        tr = ctx.tmp("gen_ser_%s.ndjson" % mode)
        run_and_validate(ctx, exe, ["script", sp, "@OUT", mode], tr, "%d serializer model behaviours, %s buffers" % (len(behs) + len(deep), mode),
                         count_as="replay")

    #    ... histories of one AES object (constructor / setKey / cipher / invcipher in every order, two keys): all of length 4
    aes_h = ctx.tlc_gen(SPEC, "Gen_AesObject.tla", "Gen_AesObject.cfg", jvm=JVM)
    ctx.notes.append("Gen_AesObject: %d histories of length 4 of one AES object (exhaustive)" % len(aes_h))
    ctx.sample({"kind": "AES object history replayed on one real object", "script": aes_h[len(aes_h) // 2]})
    sp = ctx.tmp("gen_aesobj.jsonl")
    write_script(sp, aes_h)
    tr = ctx.tmp("gen_aesobj.ndjson")
    run_and_validate(ctx, exe, ["script", sp, "@OUT", "exact"], tr, "%d AES object histories" % len(aes_h), count_as="replay")
    #    ... and the hex pair on long inputs (text longer than 65536 characters), reported through its periodic structure
    hexbig = [{"e": "HexBig", "n": n, "up": (n % 2 == 0), "delim": [ord(ch) for ch in dl], "rt": dl != "abc"}
              for dl in ("", " ", "--", "abc") for n in (13108, 13109, 16384, 16385, 21846, 21847, 32768, 32769, 65535)]
    sp = ctx.tmp("hexbig.jsonl")
    write_script(sp, hexbig)
    tr = ctx.tmp("hexbig.ndjson")
    run_and_validate(ctx, exe, ["script", sp, "@OUT", "exact"], tr, "hex encode/decode of %d long pattern inputs" % len(hexbig), count_as="replay")

    # 3. code -> spec: seeded random calls ----------------------------------------------------------------------------------
    n_exec = 300 if quick else 5000
    for mode in ("exact", "guard"):
        tr = ctx.tmp("random_%s.ndjson" % mode)
        seed = ctx.seed * 2 + (1 if mode == "guard" else 0)
        ok, lines = run_and_validate(ctx, exe, ["random", seed, n_exec, "@OUT", mode, STATELESS + ",Serial"], tr,
                                     "random calls, %s buffers" % mode)
        if ok and mode == "exact":
            for k in ("B64Dec", "ScalDec"):
                ev = next((json.loads(x) for x in lines if '"e":"%s"' % k in x and '"ret":0' in x), None)
                if ev:
                    ctx.sample({"kind": "recorded failing decode (validated by TLC)", "event": ev})
    #    MD5 (every split of the message into one, two and three updates, byte-wise updates, random splits) and AES
    #    every message length around the 64-byte block and the 56-byte padding boundary, deterministically
    import random
    rnd = random.Random(ctx.seed)
    lens = [0, 1, 2, 54, 55, 56, 57, 62, 63, 64, 65, 66, 118, 119, 120, 121, 126, 127, 128, 129, 130, 183, 184, 185, 191, 192, 193]
    md5_cases = []
    for n in lens:
        msg = [rnd.choice((0, 0x80, 0xff, rnd.randrange(256))) for _ in range(n)]
        md5_cases.append({"e": "Md5", "msg": msg, "mode": "all3" if n <= 66 else "all2", "seed": ctx.seed})
        if n > 66:
            md5_cases.append({"e": "Md5", "msg": msg, "mode": "rand", "seed": ctx.seed + n})
    sp = ctx.tmp("md5_lengths.jsonl")
    write_script(sp, md5_cases)
    tr = ctx.tmp("md5_lengths.ndjson")
    run_and_validate(ctx, exe, ["script", sp, "@OUT", "exact"], tr, "MD5 at %d boundary lengths, all splits" % len(lens))
    #    messages of 2^29 bytes and more in ONE update() call (2^32 bits: the bit count carries into its high word), against the
    #    same bytes hashed in pieces; the TLA+ operator cannot hash half a gigabyte, the law is split-independence + one known digest
    big = [{"e": "Md5Big", "lg": 29, "delta": 0, "pat": 0, "ways": 2}]
    if not quick:
        big = [{"e": "Md5Big", "lg": lg, "delta": dl, "pat": pat, "ways": 3}
               for (lg, dl, pat) in ((29, -1, 0), (29, 0, 0), (29, 1, 0), (29, 100, 0), (29, 0, 7), (29, 1, 7), (30, 0, 0), (30, 1, 0))]
    sp = ctx.tmp("md5_big.jsonl")
    write_script(sp, big)
    tr = ctx.tmp("md5_big.ndjson")
    ok, lines = run_and_validate(ctx, exe, ["script", sp, "@OUT", "exact"], tr, "MD5 of >= 2^29 bytes in one update vs. split (%d messages)" % len(big))
    if ok:
        ev = next((json.loads(x) for x in lines if '"e":"Md5Big"' in x), None)
        if ev:
            ctx.sample({"kind": "MD5 of 2^%d%+d bytes: one update() call and %d splits" % (ev["lg"], ev["delta"], ev["n"]), "one": ev["one"], "distinct_digests_of_splits": ev["splits"]})
    tr = ctx.tmp("random_md5aes.ndjson")
    ok, lines = run_and_validate(ctx, exe, ["random", ctx.seed, 60 if quick else 1200, "@OUT", "exact", "Md5,Aes,AesObj"], tr, "MD5 splits and AES blocks")
    if ok:
        ev = next((json.loads(x) for x in lines if '"e":"Md5"' in x and '"mode":"all3"' in x), None)
        if ev:
            ctx.sample({"kind": "MD5 of one message under all splits", "msg_len": len(ev["msg"]), "splits": ev["n"], "distinct_digests": ev["digests"]})
        nsplits = sum(json.loads(x)["n"] for x in lines if '"e":"Md5"' in x)
        ctx.notes.append("MD5: %d update splits executed on the real class, every digest equal to the operator's" % nsplits)

    ctx.assumptions = [
        "strict reading of 'invalid input fails', relaxed only where the repository's own tests pin a tolerant form: hex odd trailing "
        "digit / capacity truncation / surrounding blanks / one-digit tokens; Base64 with non-zero unused bits (RFC 4648 3.5 leaves it "
        "to the decoder): failure or the tolerant result are both accepted, nothing else",
        "URL encoder: which characters are escaped is not prescribed; its output must decode (reference decoder and real decoder) to the input",
        "preconditions asserted by the code are respected: Base64 Encode with non-empty input and non-zero capacity, non-null pointers",
        "Serializer over a vector starts from an empty vector; appendPOD/fetchPOD object representation is that of a little-endian host",
        "CRC functions are checked with their default initial value (the published algorithms)",
        "delimiter strings for hex contain no hex digit",
        "in-place calls (input = output) only for AES cipher/invcipher; the other codecs' contracts do not allow overlapping buffers",
    ]
    ctx.uncovered = [
        "reads outside the input are observed by ASan/UBSan (fault observers) and by the ghost read sets of the B64Impl/ScalImpl models, "
        "not by the trace specification; uninitialised reads (valgrind) are not checked",
        "url.cpp calls isprint() with a negative char for bytes >= 0x80: undefined behaviour that glibc happens to tolerate - not observable, not reported",
        "every 64-bit value / every key and block: boundary values exhaustively, the rest sampled (seeded)",
        "MD5: every split into <= 3 updates for messages <= 70 bytes, all two-way splits and random splits up to ~150 bytes; not every "
        "composition. Messages >= 2^29 bytes (bit count carries into its high word) are checked for split-independence (one update = "
        "pieces < 2^29 bytes = two/three updates) and, for 2^29 zero bytes, against the known digest - not against the TLA+ operator",
        "inputs validated by TLC are short (<= ~150 bytes), except the hex pair on pattern inputs of 13108..65535 bytes, which is checked through the periodic structure of the text (first period, length, no deviation from periodicity) and the decoded bytes likewise",
        "operator<< / operator>> wrappers (incl. float/double) of the serializer are not driven, only append*/fetch*/skip/set_pos",
    ]
