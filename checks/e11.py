# E11 - tbox::trace::Sink: records committed from several threads while enabled end up in the record files exactly once, whole,
#       in per-thread order, with consistent thread / name / module index tables; rollover on batch boundaries; disable() flushes;
#       filter strategy / exempt set applied at dispatch; enable / disable / re-enable cycles; commitRecord() racing disable().
#   model:   spec/TraceSink/TraceSink.tla (implementation-shaped: one action per atomic step of commitRecord / enable / disable /
#            the setters / the back end's batch handling; the AsyncPipe is given (C10)); 10 invariants; TLC exhaustive on five
#            bounded models; three switches must violate (disable() not waiting for commits under way = the code as found,
#            no reassembly of split records, time base not reset in a new file).
#   binding: spec -> code: every sequence of 3 API calls of the model (4 in the thorough tier) and seeded random walks of 7 calls,
#            executed by harness/e11_tracesink/driver.cpp on a real Sink (also with every commit repeated 30 times with ~900 byte
#            names, so that records straddle pipe buffers and files roll over); code -> spec: seeded random histories with three
#            committer threads running concurrently with the controller (bursts overlapped by disable()/enable(), setters, path
#            changes, removed table files).  The driver records calls, returns, the pipe's verification points (append under the
#            lock, buffer handed to the back end / given back) and, after every disable(), the decoded table and record files;
#            TLC validates every trace against spec/TraceSink/Trace_TraceSink.tla.
import concurrent.futures as cf
import json
import os
import random
import shutil
import vlib

SRC = vlib.BASE_SRC + ["trace/sink.cpp", "util/async_pipe.cpp", "util/buffer.cpp", "util/fs.cpp", "util/string.cpp", "util/scalable_integer.cpp"]
MAXLINES = 36000          # estimated lines per TLC run (the estimate is generous; a trace line costs up to ~3 states, TLC's limit is 65535 states per behaviour)
INV_ALL = ["MCommit", "MC1", "MC2", "MC3", "MC5", "MFront", "MPop", "MProc", "MBatchEnd", "MEnable", "MDisable", "ME2", "MD1", "MD2", "MD3"]
MODELS = [  # cfg, required actions
    ("MC_race.cfg", INV_ALL),
    ("MC_race2.cfg", INV_ALL),
    ("MC_filter.cfg", INV_ALL + ["MSetStrat", "MSetExempt", "MS1"]),
    ("MC_roll.cfg", INV_ALL + ["MSetMax", "MS1"]),
    ("MC_dirs.cfg", INV_ALL + ["MPrefix", "MRm"]),
]
TLC_ENV = {"JAVA_TOOL_OPTIONS": "-Xss512m"}        # the trace specification looks ahead over the recorded lines with recursive operators
NONVAC = [("MC_asfound_nowait.cfg", "AppendOnlyWhileUp"), ("MC_nv_noreasm.cfg", "Flushed"), ("MC_nv_keepts.cfg", "DecodeOK")]


def validate(ctx, exe, args, trace, what):
    return vlib.record_and_validate(ctx, exe, args, trace, "TraceSink", "Trace_TraceSink.tla", "Trace_TraceSink.cfg", what, timeout=900, tlc_env=TLC_ENV)


def scratch(ctx, name):
    d = ctx.tmp(name)
    shutil.rmtree(d, ignore_errors=True)
    os.makedirs(d, exist_ok=True)
    return d


def to_script(hist, rep=1, pad=0):
    ops = [{"o": "prefix", "ok": True}]
    for h in hist:
        o = h["o"]
        if o == "commit":
            ops.append({"o": "commit", "t": h["t"], "nb": h["nb"], "m": h["m"], "l": h["v"]})
        elif o == "set":
            ops.append({"o": "set", "w": h["w"], "v": sorted(h["v"]) if h["w"] == "exempt" else h["v"]})
        elif o == "rm":
            ops.append({"o": "rm", "w": h["w"]})
        else:
            ops.append({"o": o})
    return {"ops": ops, "rep": rep, "pad": pad}


def est_lines(s):
    n = 8
    for o in s["ops"]:
        n += 3 * s["rep"] + 4 if o["o"] == "commit" else 8 if o["o"] == "disable" else 3
    return n


def run_scripts(ctx, exe, scripts, tag):
    chunks, cur, n = [], [], 0
    for s in scripts:
        w = est_lines(s)
        if cur and n + w > MAXLINES:
            chunks.append(cur)
            cur, n = [], 0
        cur.append(s)
        n += w
    if cur:
        chunks.append(cur)
    for k, ch in enumerate(chunks):
        sp = ctx.tmp("%s_%d.jsonl" % (tag, k))
        with open(sp, "w") as f:
            for s in ch:
                f.write(json.dumps(s) + "\n")
        tr = ctx.tmp("%s_%d.ndjson" % (tag, k))
        good, n = validate(ctx, exe, ["script", sp, tr, scratch(ctx, "dir_%s_%d" % (tag, k))], tr, "replay of %d model behaviours (%s #%d)" % (len(ch), tag, k))
        if not good:
            return False
        ctx.traces_ok -= n
        ctx.replays_ok += n
    return True


def unique_scripts(behs, **kw):
    seen, res = set(), []
    for b in behs:
        s = to_script(b, **kw)
        key = json.dumps(s, sort_keys=True)
        if key not in seen:
            seen.add(key)
            res.append((key, s))
    res.sort(key=lambda x: x[0])
    return [s for _, s in res]


def ops_of_events(ev):
    ops = []
    for e in ev:
        k = e["e"]
        if k == "prefix":
            ops.append({"o": "prefix", "ok": e["ok"]})
        elif k in ("enable", "disable"):
            ops.append({"o": k})
        elif k == "rm":
            ops.append({"o": "rm", "w": e["w"]})
        elif k == "set":
            ops.append({"o": "set", "w": e["w"], "v": e["v"]})
        elif k == "commit":
            ops.append({"o": "commit", "t": e["t"], "nb": e["nb"], "np": e["np"], "l": e["l"], "m": e["m"]})
    return {"ops": ops, "rep": 1, "pad": 0}


def run(ctx):
    exe = vlib.build("e11_tracesink", SRC, ["e11_tracesink/driver.cpp"], flavour="asan", defines=vlib.BASE_DEFS)
    ctx.fault_observers = ["AddressSanitizer+UBSan on the harness build (pipe buffers freed by cleanup(), exact-size name / module / file "
                           "content copies)", "TBOX_ASSERT active (abort)", "terminate/signal handlers"]
    if ctx.replay_path:
        # 1. the recorded events themselves, 2. the same calls again, one after the other (a concurrent schedule cannot be forced)
        tr = ctx.tmp("replay.ndjson")
        open(tr, "w").write(open(ctx.replay_path).read())
        ok, info = ctx.tlc_trace("TraceSink", "Trace_TraceSink.tla", "Trace_TraceSink.cfg", tr, 1, what="replay of recorded events", env=TLC_ENV)
        if not ok:
            ctx.violation("recorded execution is rejected by the specification", ctx.replay_path)
        ev = [json.loads(x) for x in open(ctx.replay_path) if x.strip().startswith("{")]
        run_scripts(ctx, exe, [ops_of_events(ev)], "replay_seq")
        return
    # 1. the design: the bounded models run side by side, in the background of the conformance runs below
    quick = ctx.quick()
    w = max(1, vlib.NCPU // 4)
    ex = cf.ThreadPoolExecutor(max_workers=3)
    futs = [ex.submit(ctx.tlc_mc, "TraceSink", "MC_TraceSink.tla", cfg, required_actions=req, workers=w, timeout=1500) for cfg, req in MODELS]
    futs += [ex.submit(ctx.tlc_mc, "TraceSink", "MC_TraceSink.tla", cfg, expect=inv, coverage=False, workers=w) for cfg, inv in NONVAC]
    if not quick:
        futs.append(ex.submit(ctx.tlc_mc, "TraceSink", "MC_TraceSink.tla", "MC_thorough.cfg", coverage=False, workers=max(2, vlib.NCPU // 2), timeout=3000))
    try:
        conformance(ctx, exe, quick)
    finally:
        ex.shutdown(wait=True)
    for f in futs:
        f.result()


def conformance(ctx, exe, quick):
    # 2. spec -> code
    s3 = unique_scripts(ctx.tlc_gen("TraceSink", "Gen_TraceSink.tla", "Gen_d3.cfg" if quick else "Gen_d4.cfg"))
    ctx.exhaustive = True
    with_commits = [s for s in s3 if sum(1 for o in s["ops"] if o["o"] == "commit") >= 2]
    ctx.sample({"kind": "model behaviour replayed on the real Sink", "script": with_commits[len(with_commits) // 2]})
    if not run_scripts(ctx, exe, s3, "gen"):
        return
    rnd = random.Random(ctx.seed)
    walks = unique_scripts(ctx.tlc_gen("TraceSink", "Gen_TraceSink.tla", "Gen_d7.cfg", simulate=(300, 70) if quick else (3000, 70), workers=1,
                                       timeout=300, limit=300 if quick else 6000))
    if not run_scripts(ctx, exe, walks, "walks"):
        return
    # enable / disable cycles: every sequence of 6 calls over a small alphabet (enable, disable, one commit, one size limit); a seeded sample in the quick tier
    cyc = unique_scripts(ctx.tlc_gen("TraceSink", "Gen_TraceSink.tla", "Gen_cycle.cfg"))
    if quick:
        rnd.shuffle(cyc)
        cyc = sorted(cyc[:400], key=lambda s: json.dumps(s, sort_keys=True))
    if not run_scripts(ctx, exe, cyc, "cycles"):
        return
    # the same call sequences with every commit repeated 30 times and ~900 byte names: about ten records per pipe buffer, records
    # straddle buffers, files roll over inside an enabled period
    def bigger(i, s):       # size limits that several batches are needed to reach
        ops = [dict(o, v=(150, 400, 1)[i % 3]) if o["o"] == "set" and o["w"] == "max" and o["v"] == 1 else o for o in s["ops"]]
        return {"ops": ops, "rep": 30, "pad": 880 + (i % 3) * 17}
    big = [bigger(i, s) for i, s in enumerate(with_commits + walks + cyc) if sum(1 for o in s["ops"] if o["o"] == "commit") >= 2]
    rnd.shuffle(big)
    big = big[:60 if quick else 800]
    ctx.notes.append("call sequences: %d exhaustive, %d random walks of 7 calls, %d enable/disable cycles of 6 calls, %d repeated with 30 x ~900 byte records per commit" % (len(s3), len(walks), len(cyc), len(big)))
    if not run_scripts(ctx, exe, big, "big"):
        return
    # 3. code -> spec: seeded random concurrent histories
    plan = [("random", 60 if quick else 1200, 12, ""), ("race", 24 if quick else 500, 8, "race")]
    for tag, nexec, nsteps, mode in plan:
        per = 30
        done, k = 0, 0
        while done < nexec:
            n = min(per, nexec - done)
            tr = ctx.tmp("%s_%d.ndjson" % (tag, k))
            args = ["random", ctx.seed * 1000 + k + (500 if mode else 0), n, nsteps, tr, scratch(ctx, "dir_%s_%d" % (tag, k))] + ([mode] if mode else [])
            good, _ = validate(ctx, exe, args, tr, "%s histories #%d" % (tag, k))
            if not good:
                return
            if k == 0 and tag == "random":
                ctx.sample({"kind": "recorded trace (first events)", "events": [json.loads(x) for x in vlib.read_lines(tr, 1, 14)]})
            done += n
            k += 1
    ctx.assumptions = ["the AsyncPipe is given (property C10): its verification points are used to observe the order of appends and the batches "
                       "handed to the back end; a record travels as header + NUL-terminated name + NUL-terminated module (checked: bytes appended)",
                       "one controller thread (setPathPrefix, enable, disable, setters are not called concurrently with each other); "
                       "setPathPrefix and the removal of a table file only while disabled; every setPathPrefix names a fresh directory",
                       "a record (header + name + module) is shorter than 1 KiB (the code asserts this); end times < 10^9 us, at most 3 committer threads",
                       "a filter / size-limit change made while a batch is being handled may apply from any record of that batch on"]
    ctx.uncovered = ["setFileSyncEnable (O_DSYNC)", "I/O failures (directory not writable, disk full: the batch is dropped by design)",
                     "record file or table file removed while enabled (recreated at the next batch)", "data race on the plain members written by "
                     "setFilterStrategy / setRecordFileMaxSize and read by the back end (no TSan build)",
                     "the one second flush timer of the pipe only fires by chance (batches come from full buffers and from disable())"]
