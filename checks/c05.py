# C05 - Thread pool: tasks run once on workers; consistent answers; cleanup terminates.
#   model:   spec/ThreadPool/ThreadPool.tla (interleaving model: loop thread + workers, mutex, condition variable) over the
#            per-critical-section data actions of ThreadPoolData.tla; safety + liveness (FairSpec); four "as found" switches
#            must each violate their property (the defects repaired by the fix: commits; non-vacuity of the invariants).
#   binding: the real ThreadPool is run with hook points in every critical section; events are ordered by a global sequence
#            number taken under the pool's mutex and validated by TLC against Trace_ThreadPool.tla (same data actions, all
#            invariants after every event).  (a) gated scenarios derived from the as-found counterexamples force the narrow
#            windows deterministically, (b) seeded random scripts with random delays between critical sections, built with
#            ThreadSanitizer (data-race observer) and with ASan.
import json
import os
import vlib

SRC = vlib.BASE_SRC + vlib.EVENT_SRC + ["eventx/thread_pool.cpp", "eventx/work_thread.cpp"]
DEFS = vlib.BASE_DEFS + vlib.EVENT_DEFS
ACTS = ["MInitBegin", "MInitEnd", "MExecBegin", "MExecPush", "MNotifyOne", "MStatus", "MCancel", "MCleanupCollect", "MCleanupNotify",
        "MCleanupJoin", "MRunClosure", "WTop", "WPred", "WPop", "WBodyBegin", "WBodyEnd", "WErase", "WLeave"]
ACTS_BLOCK = ACTS + ["MInitSpawn", "WBlock", "WReacquire"]


def validate(ctx, exe, args, trace, what):
    return vlib.record_and_validate(ctx, exe, args, trace, "ThreadPool", "Trace_ThreadPool.tla", "Trace_ThreadPool.cfg", what,
                                    timeout=300 if ctx.quick() else 2400)


def run(ctx):
    asan = vlib.build("c05_threadpool", SRC, ["c05_threadpool/driver.cpp"], flavour="asan", defines=DEFS)
    tsan = vlib.build("c05_threadpool", SRC, ["c05_threadpool/driver.cpp"], flavour="tsan", defines=DEFS)
    ctx.fault_observers = ["ThreadSanitizer on the recording harness (data races)", "ASan+UBSan build for the gated scenarios",
                           "20 s watchdog on every call into the pool and on completion of accepted work (hang = Fault)"]
    if ctx.replay_path:
        # a replay file is the rejected execution; its script is stored next to the random trace, so re-run by seed is not
        # possible here: re-validate the recorded events (deterministic) and, for scenario files, re-run them
        tr = ctx.tmp("replay.ndjson")
        lines = [x for x in open(ctx.replay_path).read().splitlines() if x.strip()]
        if lines and lines[0].startswith('{"name"') or (lines and '"ops"' in lines[0]):
            validate(ctx, asan, ["script", ctx.replay_path, tr], tr, "replay of scenario script")
        else:
            with open(tr, "w") as f:
                f.write("\n".join(lines) + "\n")
            ok, info = ctx.tlc_trace("ThreadPool", "Trace_ThreadPool.tla", "Trace_ThreadPool.cfg", tr, 1, what="replay of recorded events")
            if not ok:
                ctx.violation("recorded execution is rejected by the specification", ctx.replay_path)
        return
    # 1. the design
    ctx.tlc_mc("ThreadPool", "MC_ThreadPool.tla", "MC_01.cfg", required_actions=ACTS)
    ctx.tlc_mc("ThreadPool", "MC_ThreadPool.tla", "MC_01_live.cfg", coverage=False)
    ctx.tlc_mc("ThreadPool", "MC_ThreadPool.tla", "MC_11.cfg", required_actions=ACTS_BLOCK)
    ctx.tlc_mc("ThreadPool", "MC_ThreadPool.tla", "MC_11_live.cfg", coverage=False)
    ctx.tlc_mc("ThreadPool", "MC_ThreadPool.tla", "MC_af_mark.cfg", expect="NoLimbo", coverage=False)
    ctx.tlc_mc("ThreadPool", "MC_ThreadPool.tla", "MC_af_flag.cfg", expect="CleanupTerminates", coverage=False)
    ctx.tlc_mc("ThreadPool", "MC_ThreadPool.tla", "MC_af_reinit.cfg", expect="LeftNotCounted", coverage=False)
    ctx.tlc_mc("ThreadPool", "MC_ThreadPool.tla", "MC_af_exit.cfg", expect="NoOrphanTask", coverage=False)
    if not ctx.quick():
        ctx.tlc_mc("ThreadPool", "MC_ThreadPool.tla", "MC_12.cfg", coverage=False, timeout=1800)
        ctx.tlc_mc("ThreadPool", "MC_ThreadPool.tla", "MC_12_live.cfg", coverage=False, timeout=1800)
        ctx.tlc_mc("ThreadPool", "MC_ThreadPool.tla", "MC_02.cfg", coverage=False, timeout=2400)
    # 2. gated scenarios (the windows of the as-found counterexamples), real code
    sc = os.path.join(vlib.HARNESS, "c05_threadpool", "scenarios.jsonl")
    tr = ctx.tmp("scenarios.ndjson")
    ok, n = validate(ctx, asan, ["script", sc, tr], tr, "gated scenarios")
    ctx.sample({"kind": "gated scenario", "script": json.loads(open(sc).readline())})
    # 2b. spec -> code with schedules: random behaviours of the interleaving model (tlc -simulate) replayed on the real pool,
    #     every thread held at its hook points until the behaviour says it is its turn; traces validated as always
    n_beh = 150 if ctx.quick() else 3000
    scripts = []
    for cfg in ("Gen_01.cfg", "Gen_12.cfg", "Gen_02.cfg"):
        behs = ctx.tlc_gen("ThreadPool", "Gen_ThreadPool.tla", cfg, simulate=(10 ** 7, 300), timeout=6 if ctx.quick() else 40, workers=2,
                           limit=n_beh // 3)
        for h in behs:
            ops = []
            for e in h:
                o = e["o"]
                if o["k"] == "init":
                    ops.append({"o": "init", "min": o["min"], "max": o["max"], "call": True})
                elif o["k"] == "exec":
                    ops.append({"o": "exec", "t": o["t"], "prio": o["lvl"] - 2, "cb": o["cb"], "call": True})
                elif o["k"] in ("status", "cancel"):
                    ops.append({"o": o["k"], "t": o["t"], "call": True})
                elif o["k"] == "cleanup":
                    ops.append({"o": "cleanup", "call": True})
                elif o["k"] == "spin":
                    ops.append({"o": "spin", "n": 1, "call": True})
            scripts.append({"ops": ops, "schedule": [{"r": e["r"], "p": e["p"]} for e in h]})
    sp = ctx.tmp("schedules.jsonl")
    with open(sp, "w") as f:
        for x in scripts:
            f.write(json.dumps(x) + "\n")
    tr = ctx.tmp("schedules.ndjson")
    ok, n = validate(ctx, asan, ["script", sp, tr], tr, "replay of %d model behaviours as schedules" % len(scripts))
    if ok:
        ctx.traces_ok -= n
        ctx.replays_ok += n
        div = sum(json.loads(l).get("seq_diverged", 0) for l in open(tr) if l.startswith('{"e":"end"'))
        ctx.notes.append("schedule replay: %d behaviours, %d abandoned before their end (the code could not follow: e.g. notify_one woke another waiter)" % (n, div))
    ctx.sample({"kind": "model behaviour replayed as a schedule", "script": scripts[0]})
    # 3. random scripts with perturbed schedules under TSan, and under ASan
    n_tsan, n_asan = (500, 150) if ctx.quick() else (8000, 2000)
    tr = ctx.tmp("random_tsan.ndjson")
    validate(ctx, tsan, ["random", ctx.seed, n_tsan, tr], tr, "random schedules (TSan build)")
    ctx.sample({"kind": "recorded events (first of the run)", "events": [json.loads(x) for x in vlib.read_lines(tr, 1, 12)]})
    tr = ctx.tmp("random_asan.ndjson")
    validate(ctx, asan, ["random", ctx.seed + 7919, n_asan, tr], tr, "random schedules (ASan build)")
    ctx.assumptions = ["pool calls are issued from the loop thread only (the class's contract)",
                       "worker / task identity in the trace is the harness's numbering of thread and task tokens",
                       "hang detection uses a 20 s watchdog (only reached when the pool really stops making progress)"]
    ctx.notes.append("WorkThread executions (a quarter of the random scripts and two scenarios) are validated against the same data "
                     "actions with min = max = 1")
    ctx.uncovered = ["the lost wake-up window of WorkThread has no gated scenario (its wait predicate has no hook point); the race that "
                     "causes it is observed by ThreadSanitizer"]
