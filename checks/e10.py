# E10 - tbox::eventx::TimerFd: initialize(first, repeat) / setCallback / enable / disable / isEnabled / remainTime / cleanup / destruction
#       on a real event loop with the real kernel timers.
#   model:   spec/TimerFd/TimerFd.tla (implementation-shaped: API flags, the FdEvent, the kernel timer with bounds on its next expiry,
#            pass = PassBegin (latched ready set) / Dispatch + callback operations / Skip / PassEnd; ghost fields carry the properties)
#            -- TLC exhaustive on small scopes, plus one configuration per wrong mechanism variant that MUST violate "its" invariant
#            (two of them are the code as found).
#   binding: spec -> code: histories of the bounded model (exhaustive focus family on one object, random deep ones on two) become
#            scripts; code -> spec: seeded random scripts.  The driver runs them on real TimerFd objects (epoll and select) in real
#            time (intervals of 0.5 - 3 ms) and records clock values read before / after the calls and inside the callbacks; TLC validates
#            every trace against spec/TimerFd/Trace_TimerFd.tla.  The oracle is insensitive to lateness: never early, never after
#            disable / cleanup / destruction, counts, flags, remainTime() within measured bounds; "must fire" only after a 1 s margin.
import concurrent.futures as cf
import copy
import json
import os
import random
import vlib

SRC = vlib.BASE_SRC + vlib.EVENT_SRC + ["eventx/timer_fd.cpp"]
DEFS = vlib.BASE_DEFS + vlib.EVENT_DEFS
ACTIONS = ["NCreate|Create", "NDestroy|Destroy", "NInitialize|Initialize", "NSetCb|SetCb", "NCleanup|Cleanup", "NEnable|Enable",
           "NDisable|Disable", "NAdvance|Advance", "NPassBegin|PassBegin", "NDispatch|Dispatch", "NSkip|Skip", "NCbEnd|CbEnd", "PassEnd"]
AS_FOUND = [("sticky_stop", "PersistKeepsFiring"), ("cb_destroyed", "NoUB"), ("lazy_disable", "NoFireAfterDisable"),
            ("resume_remaining", "NeverEarly"), ("oneshot_after", "OneShotDisabledInCallback"), ("cleanup_no_disable", "Consistent")]
HARNESS_ENV = {"ASAN_OPTIONS": vlib.SAN_ENV["ASAN_OPTIONS"].replace("detect_leaks=0", "detect_leaks=1")}
MAXLINES = 40000


# ---------------------------------------------------------------------------------------------------------------------
# model history -> driver script (1 model tick = 1 ms)
# ---------------------------------------------------------------------------------------------------------------------
def clean(r):
    o = {"o": r["o"], "i": r["i"]}
    if r["o"] == "adv":
        o = {"o": "wait", "ms": r["f"]}
    elif r["o"] == "init":
        o["f"], o["r"] = r["f"] * 1000, r["r"] * 1000
    elif r["o"] == "setcb":
        o["on"] = r["on"]
    return o


def script_of(beh, objs=(1,)):
    """operations issued outside callbacks in order (a callback invocation of the model becomes "await i": run the loop until the real
    object fires); callback operations keyed by (object, n-th invocation).  The real timing decides how the execution unfolds; it only
    has to be SOME behaviour of the specification."""
    top, cb, fc, key = [], {}, {}, None
    for r in beh["hist"]:
        if r["o"] == "fire":
            fc[r["i"]] = fc.get(r["i"], 0) + 1
            key = "%d:%d" % (r["i"], fc[r["i"]])
            top.append({"o": "await", "i": r["i"]})
        elif r["cb"] != 0:
            cb.setdefault(key, []).append(clean(r))
        else:
            top.append(clean(r))
            if r["o"] == "enable":
                top.append({"o": "remain", "i": r["i"]})
    # let whatever is still armed show what it does
    for i in objs:
        top += [{"o": "remain", "i": i}, {"o": "await", "i": i}]
    top += [{"o": "wait", "ms": 3}]
    for i in objs:
        top += [{"o": "remain", "i": i}]
    return {"top": top, "cb": cb}


def dedupe(scripts):
    seen, out = set(), []
    for s in scripts:
        k = json.dumps(s, sort_keys=True)
        if k not in seen:
            seen.add(k)
            out.append((k, s))
    out.sort(key=lambda x: x[0])
    return [s for _, s in out]


# ---------------------------------------------------------------------------------------------------------------------
# seeded random scripts (no model knowledge: inapplicable operations are skipped by the driver)
# ---------------------------------------------------------------------------------------------------------------------
def rand_ops(rnd, count, in_cb=False):
    ops = []
    for _ in range(count):
        i = 1 if rnd.random() < 0.65 else 2
        r = rnd.random()
        if r < 0.07:
            ops.append({"o": "create", "i": i})
        elif r < 0.11:
            ops.append({"o": "destroy", "i": i})
        elif r < 0.28:
            ops.append({"o": "init", "i": i, "f": rnd.choice([500, 1000, 1000, 2000, 3000, 0] if rnd.random() < 0.3 else [1000, 2000]),
                        "r": rnd.choice([0, 0, 1000, 2000, 700])})
            if rnd.random() < 0.7:
                ops.append({"o": "setcb", "i": i, "on": True})
            if rnd.random() < 0.6:
                ops.append({"o": "enable", "i": i})
        elif r < 0.36:
            ops.append({"o": "setcb", "i": i, "on": rnd.random() < 0.75})
        elif r < 0.52:
            ops.append({"o": "enable", "i": i})
        elif r < 0.66:
            ops.append({"o": "disable", "i": i})
            if rnd.random() < 0.5:
                ops.append({"o": "enable", "i": i})
        elif r < 0.72:
            ops.append({"o": "cleanup", "i": i})
        elif r < 0.80:
            ops.append({"o": "remain", "i": i})
        elif in_cb:
            ops.append({"o": "disable", "i": i})
        elif r < 0.92:
            ops.append({"o": "wait", "ms": rnd.choice([0, 1, 1, 2, 3, 4])})
        else:
            ops.append({"o": "await", "i": i})
    return ops


def rand_script(rnd):
    top = [{"o": "create", "i": 1}]
    if rnd.random() < 0.5:
        top.append({"o": "create", "i": 2})
    top += rand_ops(rnd, rnd.randint(6, 22))
    top += [{"o": "await", "i": 1}, {"o": "await", "i": 2}, {"o": "wait", "ms": 2}]
    cb = {}
    for i in (1, 2):
        for k in range(1, 6):
            if rnd.random() < 0.45:
                cb["%d:%d" % (i, k)] = rand_ops(rnd, rnd.randint(1, 3), True)
    return {"top": top, "cb": cb}


# ---------------------------------------------------------------------------------------------------------------------
def est_lines(s):
    # measured: about 4 lines per scripted operation ("call" lines and invocations included); TLC accepts behaviours of < 65535 states
    return 5 * len(s["top"]) + 6 * sum(len(v) + 1 for v in s["cb"].values()) + 12


def run_scripts(ctx, exe, scripts, tag, counted_as, parallel=3):
    """The driver runs in real time (a few milliseconds per script): the scripts are cut into chunks, the chunks are recorded by
    several driver processes side by side and validated one after the other."""
    chunks, cur, n = [], [], 0
    per = max(200, (len(scripts) + parallel - 1) // parallel)
    for s in scripts:
        w = est_lines(s)
        if cur and (n + w > MAXLINES or len(cur) >= per):
            chunks.append(cur)
            cur, n = [], 0
        cur.append(s)
        n += w
    if cur:
        chunks.append(cur)

    def one(kc):
        k, ch = kc
        sp = ctx.tmp("%s_%d.jsonl" % (tag, k))
        with open(sp, "w") as f:
            for s in ch:
                f.write(json.dumps(s) + "\n")
        tr = ctx.tmp("%s_%d.ndjson" % (tag, k))
        return vlib.record_and_validate(ctx, exe, ["run", "alt", sp, tr], tr, "TimerFd", "Trace_TimerFd.tla", "Trace_TimerFd.cfg",
                                        "%d scripts (%s #%d)" % (len(ch), tag, k), timeout=600, env=HARNESS_ENV), tr

    last, allok = None, True
    with cf.ThreadPoolExecutor(max_workers=parallel) as ex:
        for (ok, n), tr in ex.map(one, list(enumerate(chunks))):
            last = tr
            if ok and counted_as == "replay":
                ctx.traces_ok -= n
                ctx.replays_ok += n
            allok = allok and ok
    return allok, last


def script_from_trace(lines):
    """--replay: rebuild the script from a saved (rejected) execution: every call in order (a "call" line is written before the
    operation, so a crash inside it is reproduced too), an invocation becomes "await", a recorded wait a wait of 1 ms."""
    ev = [json.loads(x) for x in lines if x.strip().startswith("{")]
    top, cb, key, depth = [], {}, None, 0
    for n, e in enumerate(ev):
        t = e["e"]
        if t == "fire":
            key = "%d:%d" % (e["i"], e["k"])
            depth = 1
            top.append({"o": "await", "i": e["i"]})
        elif t == "cbend":
            depth = 0
        elif t == "call":
            op = {"o": e["o"], "i": e["i"]}
            nxt = next((x for x in ev[n + 1:n + 3] if x["e"] == e["o"] and x.get("i") == e["i"]), {})
            for f in ("f", "r", "on"):
                if f in nxt:
                    op[f] = nxt[f]
            (cb.setdefault(key, []) if depth else top).append(op)
        elif t == "wait":
            top.append({"o": "wait", "ms": 1})
        elif t == "await" and not e["ok"]:
            top.append({"o": "await", "i": e["i"]})
    return {"top": top, "cb": cb}


def fork(ctx, name):
    c = copy.copy(ctx)
    c.work = os.path.join(ctx.work, name)
    os.makedirs(c.work, exist_ok=True)
    c.states = c.transitions = c.traces_ok = c.replays_ok = 0
    c._n = 0
    c.actions = {}
    c.mc_runs = []
    return c


def join(ctx, subs):
    for c in subs:
        ctx.states += c.states
        ctx.transitions += c.transitions
        ctx.traces_ok += c.traces_ok
        ctx.replays_ok += c.replays_ok
        ctx.mc_runs += c.mc_runs
        for k, v in c.actions.items():
            t = ctx.actions.setdefault(k, [0, 0])
            t[0] += v[0]
            t[1] += v[1]


def run(ctx):
    exe = vlib.build("e10_timerfd", SRC, ["e10_timerfd/driver.cpp"], flavour="asan", defines=DEFS)
    ctx.fault_observers = ["AddressSanitizer+UBSan on the harness build (the callback functor lives on the heap: destroying it while it runs "
                           "is a heap-use-after-free)", "LeakSanitizer after every execution whose allocation count moved; open descriptors "
                           "counted before / after every execution", "TBOX_ASSERT active (~TimerFd asserts it is not inside its callback)",
                           "terminate/signal handlers"]
    if ctx.replay_path:
        lines = open(ctx.replay_path).read().splitlines()
        if not any('"e":"info"' in x for x in lines):      # a model-level counterexample: re-check the models
            ctx.tlc_mc("TimerFd", "MC_TimerFd.tla", "MC_cov.cfg", coverage=False)
            ctx.tlc_mc("TimerFd", "MC_TimerFd.tla", "MC_quick.cfg", coverage=False)
            return
        run_scripts(ctx, exe, [script_from_trace(lines)], "replay", "replay", parallel=1)
        return
    quick = ctx.quick()
    half = max(2, vlib.NCPU // 2)

    def j_mc(c):
        c.tlc_mc("TimerFd", "MC_TimerFd.tla", "MC_cov.cfg", required_actions=ACTIONS, workers=half)            # vacuity guard
        c.tlc_mc("TimerFd", "MC_TimerFd.tla", "MC_quick.cfg" if quick else "MC_thorough.cfg", coverage=False, timeout=3000, workers=half)
        if not quick:
            c.tlc_mc("TimerFd", "MC_TimerFd.tla", "MC_ops2.cfg", coverage=False, timeout=3000, workers=half)
        for variant, inv in AS_FOUND:
            c.tlc_mc("TimerFd", "MC_TimerFd.tla", "AF_%s.cfg" % variant, expect=inv, coverage=False, timeout=300, workers=2)

    def j_focus(c):
        behs = c.tlc_gen("TimerFd", "Gen_TimerFd.tla", "Gen_focus.cfg" if quick else "Gen_focus_thorough.cfg", timeout=900, workers=2)
        scripts = dedupe([script_of(b) for b in behs])
        total = len(scripts)
        scripts = random.Random(ctx.seed).sample(scripts, min(len(scripts), 1500 if quick else 12000))     # real time: ~10 ms per script
        run_scripts(c, exe, scripts, "focus", "replay")
        return scripts, total

    def j_deep(c):
        behs = c.tlc_gen("TimerFd", "Gen_TimerFd.tla", "Gen_sim.cfg", simulate=(3000 if quick else 40000, 80), timeout=600, workers=1,
                         limit=500 if quick else 5000)
        scripts = dedupe([script_of(b, (1, 2)) for b in behs])
        run_scripts(c, exe, scripts, "deep", "replay", parallel=2)
        return scripts

    def j_random(c):
        rnd = random.Random(ctx.seed)
        rs = [rand_script(rnd) for _ in range(900 if quick else 8000)]
        ok, tr = run_scripts(c, exe, rs, "random", "trace")
        return [json.loads(x) for x in vlib.read_lines(tr, 1, 40) if '"call"' not in x][:16] if tr else []

    jobs = [("mc", j_mc), ("focus", j_focus), ("random", j_random), ("deep", j_deep)]
    only = os.environ.get("E10_JOBS")          # development knob: run a subset of the jobs (evidence is then partial)
    if only:
        jobs = [(n, f if n in only.split(",") else (lambda c: None)) for n, f in jobs]
    subs = [fork(ctx, n) for n, _ in jobs]
    with cf.ThreadPoolExecutor(max_workers=4) as ex:
        futs = [ex.submit(f, c) for (n, f), c in zip(jobs, subs)]
        res = []
        err = None
        for f in futs:
            try:
                res.append(f.result())
            except vlib.Infra as e:
                err = err or e
                res.append(None)
    join(ctx, subs)
    if err and not ctx.violations:
        raise err
    if err:
        ctx.notes.append("an infrastructure error in one job was not reported because violations were found: %s" % str(err)[:300])
    ctx.exhaustive = True
    if only:
        ctx.notes.append("partial run: E10_JOBS=" + only)
        return
    _, focus, first, deep = res
    if focus and deep:
        ctx.notes.append("focus family (one object armed at time 0 with every first/repeat, then every sequence of 5 steps: clock, enable / "
                         "disable outside, any operation inside the callbacks): %d scripts, %d executed; %d random deep model histories on two "
                         "objects" % (focus[1], len(focus[0]), len(deep)))
        ctx.sample({"kind": "model history turned into a script and executed on a real TimerFd", "script": focus[0][len(focus[0]) // 2]})
    if first:
        ctx.sample({"kind": "recorded trace (first events, 'call' lines left out)", "events": first})
    ctx.assumptions = [
        "the kernel's timerfd and std::chrono::steady_clock read the same clock (CLOCK_MONOTONIC) and a timerfd never expires early",
        "must-fire is demanded only when the loop has run for more than 1 s past the latest possible expiry (the driver waits up to 1.5 s "
        "for an enabled timer with a callback); everything else the oracle demands is independent of lateness",
        "objects are used from the loop thread only; a TimerFd is not deleted from inside its own callback (the destructor asserts that)",
        "open in the reference, accepted both ways: whether initialize() of an already initialised object keeps the installed callback "
        "(the code drops it, through cleanup())",
    ]
    ctx.uncovered = ["precision of the firing (how late)", "intervals of a second and more (tv_sec arithmetic), negative durations",
                     "more than two objects per loop", "timerfd_create / timerfd_settime failures"]
