# C08 - Handles never dangle or alias: cabinet tokens, pooled objects, shared fds (+ LifetimeTag watchers, anchor file).
#   models : spec/Handles/{CabinetImpl,PoolImpl,FdImpl,LifeTagImpl}.tla - implementation-shaped (cells / free list / ids; parked
#            block stack over a malloc heap; Detail records with reference counts) carrying the handle-level specifications
#            {Cabinet,Pool,FdHandle,LifeTag}.tla as ghost state; TLC exhaustive on bounded scopes.  For each model one "as found" /
#            deliberately broken configuration MUST violate a named invariant (non-vacuity).
#   binding: spec -> code: every script of the bounded generators (BFS) plus random deep ones (-simulate) is executed on the real
#            templates/classes; code -> spec: seeded random long histories.  Every recorded trace is validated event by event by TLC
#            against the handle-level specification (Trace_*.tla).  ASan+UBSan observe the storage.
import glob
import json
import os
import vlib

SRC = vlib.BASE_SRC + ["util/fd.cpp"]
DIR = "Handles"

KINDS = {
    "cabinet": dict(
        trace=("Trace_Cabinet.tla", "Trace_Cabinet.cfg"), mc="MC_Cabinet.tla", mc_cfg=("MC_Cabinet_quick.cfg", "MC_Cabinet_thorough.cfg"),
        actions=["DoAlloc", "DoUpdate", "DoFree", "DoAt", "Clear", "WalkBegin", "WalkStep", "WalkEnd"],
        broken=[("MC_Cabinet_asfound.cfg", "DeadResolvesToNothing")],
        gen="Gen_Cabinet.tla", gen_cfg=("Gen_Cabinet_quick.cfg", "Gen_Cabinet_thorough.cfg"), sim_cfg="Gen_Cabinet_sim.cfg", sim_depth=30,
        events={"alloc", "update", "free", "at", "clear", "wbegin", "visit", "wend"},
        random=((150, 60, 10000), (1000, 80, 40000))),
    "pool": dict(
        trace=("Trace_Pool.tla", "Trace_Pool.cfg"), mc="MC_Pool.tla", mc_cfg=("MC_Pool_quick.cfg", "MC_Pool_thorough.cfg"),
        actions=["DoNew", "DoAlloc", "DoFree", "DoAllocBegin", "DoAllocEnd", "DoFreeBegin", "FreeEnd", "Del"],
        broken=[("MC_Pool_nopop.cfg", "ParkedSound"), ("MC_Pool_nodtor.cfg", "CtorDtorBalanced"), ("MC_Pool_latepop.cfg", "NeverHandsOutInUse")],
        gen="Gen_Pool.tla", gen_cfg=("Gen_Pool_quick.cfg", "Gen_Pool_thorough.cfg"), sim_cfg="Gen_Pool_sim.cfg", sim_depth=40,
        events={"pnew", "palloc", "pfree", "pdel", "cbeg", "cend", "dbeg", "dend"},
        random=((200, 60, 6000), (1200, 80, 20000))),
    "fd": dict(
        trace=("Trace_Fd.tla", "Trace_Fd.cfg"), mc="MC_Fd.tla", mc_cfg=("MC_Fd_quick.cfg", "MC_Fd_thorough.cfg"),
        actions=["DoNew", "DoNull", "DoCopyC", "DoMoveC", "DoCopyA", "DoMoveA", "DoSwap", "DoReset", "DoClose", "DoDel"],
        broken=[("MC_Fd_noguard.cfg", "NeverEarly")],
        gen="Gen_Fd.tla", gen_cfg=("Gen_Fd_quick.cfg", "Gen_Fd_thorough.cfg"), sim_cfg="Gen_Fd_sim.cfg", sim_depth=30,
        events={"fnew", "fnull", "fcopyc", "fmovec", "fcopya", "fmovea", "fswap", "freset", "fclose", "fdel"},
        random=((200, 60, 4000), (1200, 80, 20000))),
    "tag": dict(
        trace=("Trace_Tag.tla", "Trace_Tag.cfg"), mc="MC_Tag.tla", mc_cfg=("MC_Tag_quick.cfg", "MC_Tag_thorough.cfg"),
        actions=["DoTagNew", "DoTagCopyC", "DoTagAssign", "DoTagDel", "DoWNull", "DoWFromTag", "DoWCopyC", "DoWMoveC", "DoWAssignTag",
                 "DoWCopyA", "DoWMoveA", "DoWSwap", "DoWReset", "DoWDel"],
        broken=[("MC_Tag_asfound.cfg", "NoNullDeref")],
        gen="Gen_Tag.tla", gen_cfg=("Gen_Tag_quick.cfg", "Gen_Tag_thorough.cfg"), sim_cfg="Gen_Tag_sim.cfg", sim_depth=30,
        events={"tnew", "tcopyc", "tmovec", "tassign", "tmassign", "tdel", "wnull", "wtag", "wget", "wcopyc", "wmovec", "wasgt", "wcopya",
                "wmovea", "wswap", "wreset", "wdel"},
        random=((200, 60, 4000), (1200, 80, 20000))),
}
SCRIPT_KEYS = ("e", "k", "o", "h", "s", "v", "j", "x", "y", "keep", "real", "ty", "th")


def cleanup_tlc_litter():
    # TLC writes <MC>_TTrace_*.tla/.bin next to the spec when a run (expectedly) violates an invariant
    for p in glob.glob(os.path.join(vlib.SPEC, DIR, "*_TTrace_*")):
        try:
            os.remove(p)
        except OSError:
            pass


def drive(ctx, exe, kind, scripts, nexec, nops, nlong, tag):
    """Run the driver on <scripts> + random histories and have TLC validate the trace.  Returns (ok, executions)."""
    K = KINDS[kind]
    sp = "-"
    if scripts:
        sp = ctx.tmp("%s-%s.jsonl" % (kind, tag))
        with open(sp, "w") as f:
            for b in scripts:
                f.write(json.dumps(b) + "\n")
    tr = ctx.tmp("%s-%s.ndjson" % (kind, tag))
    what = "%s: %d model scripts + %d random histories (%s)" % (kind, len(scripts), nexec + (1 if nlong else 0), tag)
    ok, n = vlib.record_and_validate(ctx, exe, [kind, sp, ctx.seed, nexec, nops, nlong, tr], tr, DIR, K["trace"][0], K["trace"][1], what)
    if ok and scripts:
        ctx.traces_ok -= len(scripts)
        ctx.replays_ok += len(scripts)
    return ok, tr


def replay(ctx, exe):
    evs = []
    for line in open(ctx.replay_path):
        line = line.strip()
        if line.startswith("{"):
            try:
                evs.append(json.loads(line))
            except ValueError:
                pass
    evs = [e for e in evs if e.get("e") not in ("Reset", "Fault")]
    if not evs:
        return False        # not a recorded execution (a model counterexample): the caller re-runs the models
    names = {e["e"] for e in evs}
    kind = next((k for k, K in KINDS.items() if names & (K["events"] - {"free"})), None) or "cabinet"
    script = [{k: e[k] for k in SCRIPT_KEYS if k in e} for e in evs]
    drive(ctx, exe, kind, [script], 0, 0, 0, "replay")
    return True


def run(ctx):
    exe = vlib.build("c08_handles", SRC, ["c08_handles/driver.cpp"], flavour="asan", defines=vlib.BASE_DEFS)
    ctx.fault_observers = ["AddressSanitizer + UBSan on the harness build (use-after-free, double free, heap overflow, null dereference; "
                           "parked ObjectPool blocks are poisoned by hook H3)", "terminate/signal handlers -> Fault event"]
    q = ctx.quick()
    if ctx.replay_path and replay(ctx, exe):
        return
    try:
        only = os.environ.get("C08_ONLY")          # development aid: run one part only (cabinet|pool|fd|tag)
        for kind, K in KINDS.items():
            if only and kind != only:
                continue
            # 1. the design: the implementation-shaped model implements the handle-level specification
            ctx.tlc_mc(DIR, K["mc"], K["mc_cfg"][0 if q else 1], required_actions=[a + "|" + a[2:] if a.startswith("Do") else a for a in K["actions"]], timeout=1500)
            # (TLC names an action  \E x : A(x)  either by the wrapper DoA or by A itself)
            for cfg, inv in K["broken"]:
                ctx.tlc_mc(DIR, K["mc"], cfg, expect=inv, coverage=False, timeout=300)        # must be reported (non-vacuity)
            if ctx.replay_path:
                continue
            # 2. spec -> code: all scripts of the bounded generator, and random deep ones
            behs = ctx.tlc_gen(DIR, K["gen"], K["gen_cfg"][0 if q else 1], timeout=900)
            deep = ctx.tlc_gen(DIR, K["gen"], K["sim_cfg"], simulate=(300 if q else 3000, 2 * K["sim_depth"]), timeout=300, workers=2)
            # (TLC prints every successor of the last level of a random trace: keep one script per trace)
            seen, uniq = set(), []
            for b in deep:
                key = json.dumps(b[:-1])
                if key not in seen:
                    seen.add(key)
                    uniq.append(b)
            deep = uniq
            ctx.notes.append("%s: %d exhaustive generator scripts (%s) + %d random deep scripts (depth %d) executed on the real code"
                             % (kind, len(behs), K["gen_cfg"][0 if q else 1], len(deep), K["sim_depth"]))
            if kind in ("cabinet", "fd"):
                ctx.sample({"kind": "model script replayed on the real %s" % kind, "script": behs[len(behs) // 2]})
            # 3. code -> spec: seeded random histories (every eighth one 8x longer, plus one very long one)
            nexec, nops, nlong = K["random"][0 if q else 1]
            scripts = behs + deep
            CH = 25000                       # TLC loads a whole trace file into memory: validate big script sets in chunks
            for c in range(0, max(len(scripts) - CH, 0), CH):
                drive(ctx, exe, kind, scripts[c:c + CH], 0, 0, 0, "scripts%d" % (c // CH))
            rest = scripts[(max(len(scripts) - 1, 0) // CH) * CH:]
            ok, tr = drive(ctx, exe, kind, rest, nexec, nops, nlong, "all")
            if ok and kind in ("cabinet", "pool", "fd"):
                last = [json.loads(x) for x in open(tr).read().splitlines()[-4:-1]]
                ctx.sample({"kind": "recorded %s trace (last events of the long random history)" % kind, "events": last})
    finally:
        cleanup_tlc_litter()
    ctx.exhaustive = True
    ctx.assumptions = [
        "token ids do not wrap (2^64 allocations are not reachable); the model has no wrap-around either",
        "Cabinet::foreach(): the callback only calls at/update/free (the header allows removal only); alloc()/clear() inside the walk are not exercised",
        "ObjectPool: objects are given back through the pool before the pool is destroyed (documented requirement); malloc never fails; "
        "constructors/destructors re-enter alloc()/free() of the same pool at most two levels deep; a constructor that throws leaves no object "
        "(the block it was given is lost by the current code - a leak, not reported)",
        "Fd: real descriptors (no close function) are observed by probing fcntl(F_GETFD) after every call; a closed number is re-occupied at once "
        "by a placeholder so that a second close is seen; two closes of one number within a single call are seen as one",
        "single-threaded use (all four classes are documented as not thread-safe)",
    ]
    ctx.uncovered = [
        "Cabinet::reserve() and Token ordering/hash helpers (no handle semantics)",
        "ObjectPool retention policy itself (how many blocks are parked) is deliberately not compared on the code, only in the model (ParkedBounded)",
        "Fd::Open / read / write / setNonBlock (plain system call wrappers)",
    ]
    ctx.notes.append("LifetimeTag/Watcher is not named in the statement; it is checked as an extension because lifetime_tag.hpp is an anchor file "
                     "(watcher reports alive iff its host exists; no dangling/null record access)")
