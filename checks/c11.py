# C11 - Module tree lifecycle hooks are nested, ordered and balanced.
#   model:   spec/ModuleTree/ModuleTree.tla - every program (tree <= 4 modules x required/optional x onInit/onStart outcomes),
#            arbitrary root call sequences, reference semantics of module.cpp judged by the property monitor
#            (ModuleTreeDefs.tla); deviations V (as-found code, model mutants) must violate the matching invariant.
#   binding: spec -> code: for every program of the model one call sequence per transition of the model's state graph
#            (+ every call sequence of length 5 for the small programs, + the Main() sequence) is executed on REAL
#            tbox::main::Module probe subclasses; code -> spec: random larger trees (<= 12 modules, depth <= 5) with random
#            call sequences.  Every recorded trace is validated by TLC against spec/ModuleTree/Trace_ModuleTree.tla.
import concurrent.futures as cf
import json
import random
import re
import threading
import vlib

SRC = vlib.BASE_SRC + ["main/module.cpp", "util/variables.cpp"]
SPEC = "ModuleTree"
NONVACUITY = [  # (cfg, invariant that must be violated)
    ("MC_asfound.cfg", "Balanced"), ("MC_asfound_twice.cfg", "ExactlyOnce"), ("MC_stopfwd.cfg", "ReverseOrder"),
    ("MC_cleanup_nostop.cfg", "CleanupOnlyAfterStop"), ("MC_start_nogate.cfg", "StartOnlyAfterInit"),
    ("MC_opt_abort.cfg", "OptionalFailureIsolated"), ("MC_skip_last.cfg", "HooksCalled"), ("MC_init_rev.cfg", "Nested"),
    ("MC_stop_nogate.cfg", "StopOnlyIfStarted"), ("MC_dtor_kids_first.cfg", "Balanced"), ("MC_stale_disabled.cfg", "Balanced"),
]


def why(ctx):
    def f(lines, rel, info):
        m = re.search(r'<<"WHY", (.*?)>>', info.get("out", ""))
        if m:
            ctx.log("  clauses broken by the rejected line: " + m.group(1))
        return None
    return f


def validate(ctx, exe, args, trace, what):
    return vlib.record_and_validate(ctx, exe, args, trace, SPEC, "Trace_ModuleTree.tla", "Trace_ModuleTree.cfg", what,
                                    signature_fn=why(ctx))


def naming(rnd, p):
    """how each module gets its name: 0 unnamed (at most one unnamed child per parent: add() refuses duplicates),
    1 named by the constructor, 2 renamed by addAs()"""
    named, unnamed_kid = [], set()
    for m in range(1, p["n"] + 1):
        k = rnd.randrange(3)
        par = p["parent"][m - 1]
        if m > 1 and k == 0:
            if par in unnamed_kid:
                k = 1
            unnamed_kid.add(par)
        named.append(k)
    return named


CHUNKS = 4      # fixed (results do not depend on the number of CPUs); the chunks are validated by parallel TLC processes


def pool(ctx, fns):
    """run the thunks on a thread pool (each starts its own TLC / driver process); exceptions propagate"""
    if not hasattr(ctx, "_c11_lock"):
        ctx._c11_lock = threading.Lock()
        orig = ctx.metadir

        def metadir():
            with ctx._c11_lock:
                return orig()
        ctx.metadir = metadir           # vlib's metadir counter is not thread-safe
    with cf.ThreadPoolExecutor(max_workers=max(1, min(vlib.NCPU, len(fns)))) as ex:
        return [f.result() for f in [ex.submit(fn) for fn in fns]]


def trace_jobs(ctx, jobs):
    """jobs: list of (args, trace, what) -> thunks that run the driver and validate the recorded trace; each returns (ok, n)"""
    exe = ctx._c11_exe
    return [(lambda j=j: validate(ctx, exe, j[0], j[1], j[2])) for j in jobs]


def script_jobs(ctx, scripts, tag):
    k = CHUNKS if len(scripts) >= 50 * CHUNKS else 1
    jobs = []
    for i in range(k):
        part = scripts[i::k]
        sp = ctx.tmp("%s%d.jsonl" % (tag, i))
        with open(sp, "w") as f:
            for s in part:
                f.write(json.dumps(s, separators=(",", ":")) + "\n")
        tr = ctx.tmp("%s%d.ndjson" % (tag, i))
        jobs.append((["script", sp, tr], tr, "%d model-generated executions (%s, part %d/%d)" % (len(part), tag, i + 1, k)))
    return jobs


def account_replays(ctx, res):
    for ok, n in res:
        if ok:
            ctx.traces_ok -= n
            ctx.replays_ok += n


def close(calls, i):
    """-> (calls, wrap).  A sequence that ends with destroy (generated as a transition from any state) runs on a tree owned by a
    plain Module root; the others are closed with cleanup + destroy on module 1 itself (C++ cannot deliver module 1's own hooks
    from ~Module(), DESIGN section 5 item 12) or, alternately, with a bare destroy of a wrapped tree."""
    calls = list(calls)
    if calls and calls[-1] == "destroy":
        return calls, True
    if i % 2:
        return calls + ["destroy"], True
    return calls + ["cleanup", "destroy"], False


def prune_prefixes(behs):
    """drop call sequences that are a proper prefix of another sequence of the same program (their transitions are covered)"""
    by = {}
    for b in behs:
        by.setdefault(json.dumps(b["p"], sort_keys=True), []).append(tuple(b["c"]))
    out = []
    for k in sorted(by):
        seqs = sorted(set(by[k]))
        p = json.loads(k)
        for i, s in enumerate(seqs):
            if i + 1 < len(seqs) and seqs[i + 1][:len(s)] == s:
                continue
            out.append({"p": p, "c": list(s)})
    return out


def run(ctx):
    exe = vlib.build("c11_modules", SRC, ["c11_modules/driver.cpp"], flavour="asan", defines=vlib.BASE_DEFS)
    ctx.fault_observers = ["AddressSanitizer+UBSan on the harness build", "terminate/signal handlers (Fault event)"]
    rnd = random.Random(ctx.seed)
    ctx._c11_exe = exe
    if ctx.replay_path:
        lines = [json.loads(x) for x in open(ctx.replay_path) if x.strip().startswith("{")]
        progs = [e for e in lines if e["e"] == "prog"]
        if not progs:
            raise vlib.Infra("replay file has no prog line")
        p = progs[0]
        calls = [e["op"] for e in lines if e["e"] == "call"]
        s = {"p": {k: p[k] for k in ("n", "parent", "req", "iok", "sok")}, "named": p.get("named", [1] * p["n"]),
             "wrap": bool(p.get("wrap")), "c": ["main"] if p.get("mode") == "main" else calls}
        account_replays(ctx, pool(ctx, trace_jobs(ctx, script_jobs(ctx, [s], "replay"))))
        return
    quick = ctx.quick()
    # 1. the design: reference semantics of module.cpp satisfies every clause for all programs <= 4 modules, any call sequence
    # (no -coverage: TLC's coverage report is pathologically slow on the mutually recursive operators; the vacuity guards are
    #  the deviation configurations below, the Destroy witness and the per-action transition counts of the generator)
    mc = [lambda: ctx.tlc_mc(SPEC, "MC_ModuleTree.tla", "MC_quick.cfg" if quick else "MC_thorough.cfg", timeout=1500, coverage=False),
          # hook results that change between life cycles (first call of a hook differs from the later ones)
          lambda: ctx.tlc_mc(SPEC, "MC_ModuleTree.tla", "MC_vary.cfg" if quick else "MC_vary_thorough.cfg", timeout=1500, coverage=False),
          lambda: ctx.tlc_mc(SPEC, "MC_ModuleTree.tla", "MC_witness.cfg", expect="NeverDestroyed", coverage=False, workers=1)]
    for cfg, inv in NONVACUITY:                                 # as-found code + model mutants: each invariant can fail
        mc.append(lambda cfg=cfg, inv=inv: ctx.tlc_mc(SPEC, "MC_ModuleTree.tla", cfg, expect=inv, coverage=False, workers=1))
    # 2. spec -> code.  Cover generators with 1 worker: BFS order, hence the chosen path per state, is deterministic
    t = "" if quick else "_thorough"
    gens = [lambda: ctx.tlc_gen(SPEC, "Gen_ModuleTree.tla", "Gen_cover.cfg", workers=1),
            lambda: ctx.tlc_gen(SPEC, "Gen_ModuleTree.tla", "Gen_cover_vary%s.cfg" % t, workers=1, timeout=1500),
            lambda: ctx.tlc_gen(SPEC, "Gen_ModuleTree.tla", "Gen_all%s.cfg" % t, timeout=1500, workers=2),
            lambda: ctx.tlc_gen(SPEC, "Gen_ModuleTree.tla", "Gen_all_vary%s.cfg" % t, timeout=1500, workers=2)]
    res = pool(ctx, mc + gens)
    cover, cover_v, allseq, allseq_v = res[-4:]
    for op, act in (("initialize", "Initialize"), ("start", "Start"), ("stop", "Stop"), ("cleanup", "Cleanup"), ("destroy", "Destroy")):
        n = sum(1 for b in cover + cover_v if b["c"][-1] == op)
        if n == 0:
            raise vlib.Infra("vacuity guard: action %s never taken by the generator" % act)
        ctx.actions[act] = [n, n]
    pkey = lambda b: json.dumps(b["p"], sort_keys=True)
    fixed = set(pkey(b) for b in cover)
    cover_v = [b for b in cover_v if pkey(b) not in fixed]          # the fixed-result programs are already in the <= 4 cover
    allseq_v = [b for b in allseq_v if pkey(b) not in fixed]
    scripts = prune_prefixes(cover + cover_v)
    ctx.notes.append("transition cover of the model incl. destroy from every state (<= 4 modules fixed results, <= %d modules results "
                     "changing between life cycles): %d transitions -> %d call sequences after prefix pruning"
                     % (2 if quick else 3, len(cover) + len(cover_v), len(scripts)))
    allseq = allseq + allseq_v
    allseq.sort(key=lambda b: (pkey(b), b["c"]))
    ctx.notes.append("all call sequences of fixed length for the small programs: %d" % len(allseq))
    progs = {}
    for b in scripts + allseq:
        progs.setdefault(pkey(b), b["p"])
    execs = []
    for i, b in enumerate(scripts + allseq):
        calls, wrap = close(b["c"], i)
        execs.append({"p": b["p"], "named": naming(rnd, b["p"]), "wrap": wrap, "c": calls})
    for k in sorted(progs):                                     # Main()'s own sequencing, once per program
        execs.append({"p": progs[k], "named": naming(rnd, progs[k]), "wrap": True, "c": ["main"]})
    ctx.exhaustive = True
    ctx.sample({"kind": "model-generated execution replayed on real Module probes", "script": execs[len(execs) // 3]})
    gen_jobs = script_jobs(ctx, execs, "gen")
    # 3. code -> spec: random larger trees
    nexec = 800 if quick else 30000                            # per chunk
    jobs = []
    for i in range(CHUNKS):
        tr = ctx.tmp("random%d.ndjson" % i)
        jobs.append((["random", ctx.seed * 1000 + i, nexec, 12, 5, 8, tr], tr,
                     "random trees <= 12 modules, depth <= 5 (part %d/%d)" % (i + 1, CHUNKS)))
    res = pool(ctx, trace_jobs(ctx, gen_jobs + jobs))
    account_replays(ctx, res[:len(gen_jobs)])
    tr = jobs[0][1]
    first = vlib.read_lines(tr, 1, 7)
    ctx.sample({"kind": "recorded trace of a random tree (first lines)", "events": [json.loads(x) for x in first]})
    ctx.assumptions = [
        "module 1 itself is only destroyed after cleanup() (C++ cannot deliver the hooks of the object being destroyed from "
        "~Module()); destruction in any other state (running, initialised, after a failed start ...) is exercised on a tree owned by "
        "a plain Module('') root, as `apps` in Main(), whose ~Module() must stop and clean up everything below it",
        "the Main() sequence is transcribed from run_in_frontend.cpp/run_in_backend.cpp as of this revision: initialize; if ok "
        "{start; if ok stop; cleanup}; destroy - on a plain Module('') root",
        "hook results are a function of (module, hook, number of the call); hooks do not throw and do not call back into the tree",
        "positive obligations (everything initialised/started when no required module fails effectively) are demanded of the first "
        "initialize()/start() round only; later rounds are checked for permission and balance",
        "a missing configuration key of a named module (initialize() fails before onInit) is not exercised",
    ]
    ctx.uncovered = ["Main() itself (signals, loop, context) is not run; only its call sequence over the module tree is replayed"]
