# C07 - Byte buffer is a FIFO byte queue under every operation mix.
#   model:   spec/Buffer/BufferImpl.tla (implementation-shaped; ghost FIFO queue)  -- TLC exhaustive, small scope
#   binding: spec -> code: every operation script of the model to depth 4 (and random deep ones) is executed on the
#            real class; code -> spec: random long histories; all recorded traces validated against
#            spec/Buffer/Trace_Buffer.tla (abstract FIFO spec Buffer.tla).  ASan+UBSan observe storage accesses.
import json
import os
import random
import vlib

SRC = vlib.BASE_SRC + ["util/buffer.cpp"]
ACTIONS = ["Construct", "Destroy", "NAppend", "NEnsure", "NCommit", "NFetch", "NConsume", "ConsumeAll", "Shrink", "Reset",
           "CopyConstruct", "CopyAssign", "MoveConstruct", "MoveAssign", "Swap"]


def validate(ctx, exe, args, trace, what):
    return vlib.record_and_validate(ctx, exe, args, trace, "Buffer", "Trace_Buffer.tla", "Trace_Buffer.cfg", what)


def run_scripts(ctx, exe, behs, tag):
    sp = ctx.tmp(tag + ".jsonl")
    with open(sp, "w") as f:
        for b in behs:
            f.write(json.dumps(b) + "\n")
    tr = ctx.tmp(tag + ".ndjson")
    ok, n = validate(ctx, exe, ["script", sp, tr], tr, "replay of %d model behaviours (%s)" % (len(behs), tag))
    if ok:
        ctx.traces_ok -= n
        ctx.replays_ok += n
    return ok


def run(ctx):
    exe = vlib.build("c07_buffer", SRC, ["c07_buffer/driver.cpp"], flavour="asan", defines=vlib.BASE_DEFS)
    ctx.fault_observers = ["AddressSanitizer+UBSan on the harness build (storage bounds)", "terminate/signal handlers"]
    if ctx.replay_path:
        lines = [json.loads(x) for x in open(ctx.replay_path) if x.strip().startswith("{")]
        ops = [{"o": e["e"], "b": e.get("b", 0), "s": e.get("s", 0), "n": e.get("n", 0)} for e in lines if e["e"] not in ("Reset", "Fault")]
        run_scripts(ctx, exe, [ops], "replay")
        return
    # 1. the design: implementation-shaped model refines the FIFO queue, indices sane, no access outside storage
    ctx.tlc_mc("Buffer", "MC_BufferImpl.tla", "MC_cov.cfg", required_actions=ACTIONS)      # per-action coverage (vacuity guard)
    ctx.tlc_mc("Buffer", "MC_BufferImpl.tla", "MC_quick.cfg", coverage=False)
    if not ctx.quick():
        ctx.tlc_mc("Buffer", "MC_BufferImpl.tla", "MC_one.cfg", coverage=False, timeout=1500)
    # 2. spec -> code: all scripts of the bounded model
    behs = ctx.tlc_gen("Buffer", "Gen_Buffer.tla", "Gen_quick.cfg")
    rnd = random.Random(ctx.seed)
    total = len(behs)
    ctx.exhaustive = True
    ctx.notes.append("depth-4 scripts of Gen_quick: %d generated, %d executed" % (total, len(behs)))
    ctx.sample({"kind": "model behaviour replayed on the real Buffer", "script": behs[0]})
    run_scripts(ctx, exe, behs, "gen4")
    deep = ctx.tlc_gen("Buffer", "Gen_Buffer.tla", "Gen_sim.cfg", simulate=(1000000, 16), timeout=8 if ctx.quick() else 60,
                       workers=8, limit=20000 if ctx.quick() else 200000)
    ctx.sample({"kind": "random deep model behaviour", "script": deep[0]})
    run_scripts(ctx, exe, deep, "gensim")
    # 3. code -> spec: long random histories with sizes 0 .. MBs
    nexec, nops, maxsize = (600, 40, 4000000) if ctx.quick() else (6000, 60, 4000000)
    tr = ctx.tmp("random.ndjson")
    validate(ctx, exe, ["random", ctx.seed, nexec, nops, maxsize, tr], tr, "random histories")
    first = vlib.read_lines(tr, 1, 4)
    ctx.sample({"kind": "recorded trace (first events)", "events": [json.loads(x) for x in first]})
    ctx.assumptions = ["bytes written are the stream pattern p % 251, contents compared as maximal runs (a loss of an exact multiple "
                       "of 251 bytes is caught by the size law, not by content)",
                       "allocation failure (ensureWritableSize returning false) is not exercised"]
