# E06 (extension) - network address values: tbox::network::IPAddress and tbox::network::SockAddr.
#   model:   spec/NetAddr/NetAddr.tla       reference operators: dotted-quad printing, the BSD numbers-and-dots notation accepted by
#                                           inet_aton (numbers as 16-bit limbs), & | ~ broadcast, std::stoi on the port, SockAddr values
#                                           None / V4 / Local and their printed form, which outcomes SockAddr::FromString may have
#            spec/NetAddr/LawsE06.tla       laws: FromString(toString(a)) = a, canonical <=> four decimal numbers 0..255, malformed input is
#                                           rejected, the examples of inet(3) and of the repository's tests, Boolean-algebra and broadcast
#                                           laws, port laws, SockAddr round trip, FromString is total
#            spec/NetAddr/SockAddrSpec.tla  abstract machine of SockAddr objects (construct / copy / assign / destroy; copies are equal)
#            spec/NetAddr/NetImpl.tla       implementation-shaped storage model (family, len_, payload, memcpy of n bytes) with the abstract
#                                           value as ghost; as-found switches Shallow / Unchecked must violate their invariant
#   binding: spec -> code: every case of the bounded domains and every 3-operation history of the abstract machine (+ random deep ones);
#            code -> spec: seeded random histories.  Every recorded call is validated by TLC against spec/NetAddr/Trace_NetAddr.tla;
#            every object lives alone in an exactly sized heap block whose previous contents are varied.
import json
import vlib
import e0506_common as ec

SRC = vlib.BASE_SRC + ["network/ip_address.cpp", "network/sockaddr.cpp"]
SPEC = "NetAddr"


def validate(ctx, exe, args, trace, what, count_as="trace"):
    return ec.run_and_validate(ctx, SPEC, "Trace_NetAddr.tla", "Trace_NetAddr.cfg", exe, args, trace, what, count_as=count_as)


def run(ctx):
    try:
        _run(ctx)
    finally:
        ec.cleanup_ttrace(SPEC)


def _run(ctx):
    exe = vlib.build("e06_netaddr", SRC, ["e06_netaddr/driver.cpp"], flavour="asan", defines=vlib.BASE_DEFS,
                     extra_flags=["-D_GLIBCXX_ASSERTIONS"])
    ctx.fault_observers = ["AddressSanitizer + UBSan (every SockAddr alone in a malloc block of exactly sizeof(SockAddr) bytes; exactly sized inputs)",
                           "raw storage of every new SockAddr pre-filled with zeros / the bytes of AF_INET / of AF_LOCAL / 0xff: a result that "
                           "depends on indeterminate bytes differs from the abstract value for at least one filling",
                           "terminate/signal handlers; a call that does not return leaves its Call line + Fault in the trace"]
    quick = ctx.quick()
    if ctx.replay_path:
        sp = ctx.tmp("replay.jsonl")
        ec.write_script(sp, ec.replay_cases(ctx.replay_path), batch=10 ** 9)
        validate(ctx, exe, ["script", sp, "@OUT"], ctx.tmp("replay.ndjson"), "replay", count_as="replay")
        return

    # 1. the design ---------------------------------------------------------------------------------------------------------
    ctx.tlc_mc(SPEC, "LawsE06.tla", "MC_LawsE06_quick.cfg" if quick else "MC_LawsE06.cfg", jvm=ec.JVM, timeout=1500,
               required_actions=["PickIp", "PickIpStr", "PickOps", "PickPort", "PickSa", "PickSaStr", "PickExamples"])
    ctx.tlc_mc(SPEC, "NetImpl.tla", "MC_NetImpl.cfg", jvm=ec.JVM,
               required_actions=["IDefault", "IFromStr", "IMake", "ICopy", "IAssign", "IDestroy"])
    # the two repaired defects, reproduced at model level, must violate their invariant (non-vacuity)
    ctx.tlc_mc(SPEC, "NetImpl.tla", "MC_NetImpl_shallow.cfg", expect="ObsConforms", jvm=ec.JVM, coverage=False)
    ctx.tlc_mc(SPEC, "NetImpl.tla", "MC_NetImpl_unchecked.cfg", expect="NoWriteBeyondStorage", jvm=ec.JVM, coverage=False)
    ec.cleanup_ttrace(SPEC)

    # 2. spec -> code -----------------------------------------------------------------------------------------------------------
    cases = [b[0] for b in ctx.tlc_gen(SPEC, "Gen_NetAddr.tla", "Gen_NetAddr_cases.cfg" if quick else "Gen_NetAddr_cases_thorough.cfg", jvm=ec.JVM)]
    cases.sort(key=lambda c: json.dumps(c, sort_keys=True))
    kinds = {}
    for c in cases:
        kinds[c["e"]] = kinds.get(c["e"], 0) + 1
    ctx.exhaustive = True
    ctx.notes.append("Gen_NetAddr cases: %d %s" % (len(cases), kinds))
    # stateless cases in executions of 50 calls; every FromString case is an execution of its own (it occupies slot 1)
    stateless = [c for c in cases if not c["e"].startswith("Sa")]
    fromstr = [c for c in cases if c["e"].startswith("Sa")]
    sp = ctx.tmp("gen_cases.jsonl")
    ec.write_script(sp, stateless)
    with open(sp, "a") as f:
        for c in fromstr:
            f.write(json.dumps([c], separators=(",", ":")) + "\n")
    ctx.sample({"kind": "model case executed on the real function", "call": next(c for c in cases if c["e"] == "IpFrom" and len(c["in"]) > 8)})
    ok, lines = validate(ctx, exe, ["script", sp, "@OUT"], ctx.tmp("gen_cases.ndjson"), "%d model cases" % len(cases), count_as="replay")
    if ok:
        ev = next((json.loads(x) for x in lines if x.startswith('{"e":"IpFrom"') and '"exc":"FormatInvalid"' in x and x.count(",") > 14), None)
        if ev:
            ctx.sample({"kind": "recorded rejected IPAddress::FromString (validated by TLC)", "event": ev})
    behs = ctx.tlc_gen(SPEC, "Gen_NetAddr.tla", "Gen_NetAddr_slots.cfg" if quick else "Gen_NetAddr_slots_thorough.cfg", jvm=ec.JVM)
    behs.sort(key=lambda b: json.dumps(b, sort_keys=True))
    deep = []
    if not quick:                                           # random deeper walks of the abstract machine (not reproducible per seed: thorough only)
        deep = ctx.tlc_gen(SPEC, "Gen_NetAddr.tla", "Gen_NetAddr_sim.cfg", simulate=(1000000, 12), timeout=60, jvm=ec.JVM, limit=30000, workers=2)
    ctx.notes.append("Gen_NetAddr slots: %d operation sequences of length %d over 2 slots (exhaustive, BFS) + %d random sequences of length 12 "
                     "over 3 slots" % (len(behs), 3 if quick else 4, len(deep)))
    ctx.sample({"kind": "SockAddr model behaviour replayed on the real class", "script": behs[len(behs) // 2]})
    sp = ctx.tmp("gen_slots.jsonl")
    with open(sp, "w") as f:
        for b in behs + deep:
            f.write(json.dumps(b, separators=(",", ":")) + "\n")
    ok, lines = validate(ctx, exe, ["script", sp, "@OUT"], ctx.tmp("gen_slots.ndjson"), "%d SockAddr model behaviours" % (len(behs) + len(deep)),
                         count_as="replay")
    if ok:
        ev = next((json.loads(x) for x in lines if x.startswith('{"e":"SaAssign"')), None)
        if ev:
            ctx.sample({"kind": "recorded SockAddr assignment with the state of all slots (validated by TLC)", "event": ev})

    # 3. code -> spec: seeded random histories ----------------------------------------------------------------------------------
    n_exec = 300 if quick else 5000
    ok, lines = validate(ctx, exe, ["random", ctx.seed, n_exec, "@OUT"], ctx.tmp("random.ndjson"), "random histories")
    if ok:
        ev = next((json.loads(x) for x in lines if x.startswith('{"e":"SaFromStr"') and '"t":0' in x and '"in":[4' in x), None)
        if ev:
            ctx.sample({"kind": "recorded SockAddr::FromString (validated by TLC)", "event": {k: ev[k] for k in ("e", "b", "in")},
                        "result": ev["st"][ev["b"] - 1]})
        ctx.notes.append("random: %d recorded calls" % sum(1 for x in lines if not x.startswith('{"e":"Reset"')))

    ctx.assumptions = [
        "IPAddress::FromString is documented to throw FormatInvalid for a malformed string and is implemented with inet_aton(3): a dotted quad "
        "(four decimal numbers 0..255 without leading zeros) must be accepted exactly; everything inet_aton rejects must throw FormatInvalid; "
        "the other forms of the BSD numbers-and-dots notation (fewer numbers, octal, hex, trailing white space + anything) may be accepted "
        "with the inet_aton value or rejected - nothing else",
        "port of \"ip:port\": 1..n decimal digits with value <= 65535 exact; what only std::stoi tolerates (blanks, sign, junk after the digits, "
        "values > 65535 reduced modulo 2^16): no address or the tolerant reading; no digits / not an int: no address (kNone)",
        "a local path longer than sockaddr_un::sun_path (108 bytes) gives no address (behaviour after the repair 8fa3bc4)",
        "\"0x\" not followed by a hex digit is not judged (C libraries disagree); strings contain no NUL except local paths",
        "sockaddr_in handed to SockAddr(sockaddr_in) has a zeroed sin_zero; SockAddr(sockaddr, len) is fed the toSockAddr() image of another object",
        "the integer value of an IPAddress is compared as its four bytes in memory order (= dotted order), independent of endianness",
    ]
    ctx.uncovered = [
        "every 32-bit address: all 4-tuples over the edge byte values by TLC and on the real code, the rest sampled (seeded)",
        "uninitialised reads are made visible by varying the previous contents of the storage (four fillings), not by MemorySanitizer",
        "toSockAddr into a type smaller than the address (TBOX_ASSERT) and SockAddr(sockaddr, len) with len > sizeof(sockaddr_storage) are "
        "precondition violations and not exercised; IPv6Address is a stub",
        "-2147483648 as port text (stoi accepts it, the operator calls it out of range) is not generated",
    ]
