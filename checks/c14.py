# C14 - JSON-RPC: framing is total and resumable; each request completes once.
#   models:  spec/JsonRpc/Framing.tla  (three implementation-shaped decoders behind the users' leftover-buffer loop; TLC: every
#            stream of a small alphabet, every segmentation; as-found / non-vacuity configurations must violate)
#            spec/JsonRpc/Rpc.tla      (request_callback_ map + TimeoutMonitor ring + re-entrant callbacks; ghost counters)
#   binding: spec -> code: TLC-generated behaviours (Gen_Framing, Gen_Rpc) executed on the real HeaderStreamProto /
#            RawStreamProto / PacketProto / Rpc; code -> spec: seeded corpora (rich valid JSON, hostile bytes, random
#            request/response/clock histories).  Every recorded execution is validated by TLC against
#            Trace_Framing.tla / Trace_Rpc.tla.  ASan+UBSan, terminate and signal handlers observe faults.
import glob
import json
import os
import random
import vlib

EVENT_SRC = ["event/loop.cpp", "event/common_loop.cpp", "event/common_loop_timer.cpp", "event/common_loop_signal.cpp",
             "event/common_loop_run.cpp", "event/timer_event_impl.cpp", "event/signal_event_impl.cpp", "event/misc.cpp",
             "event/stat.cpp", "event/engines/select/loop.cpp", "event/engines/select/fd_event.cpp",
             "event/engines/epoll/loop.cpp", "event/engines/epoll/fd_event.cpp"]
SRC = vlib.BASE_SRC + EVENT_SRC + ["util/json.cpp", "util/serializer.cpp", "jsonrpc/proto.cpp", "jsonrpc/rpc.cpp",
                                   "jsonrpc/protos/header_stream_proto.cpp", "jsonrpc/protos/raw_stream_proto.cpp",
                                   "jsonrpc/protos/packet_proto.cpp"]
DEFS = vlib.BASE_DEFS + ["HAVE_EPOLL=1", "HAVE_SELECT=1"]
SPEC = "JsonRpc"
MC_PRE = b'{"p":'                                                   # envelope prefix of the bounded models (McPre)
REAL_PRE = b'{"jsonrpc":"2.0","method":"m","id":7,"params":'        # what the real code needs to deliver a message
FRAMINGS = ["raw", "header", "packet"]
TLC_ENV = {"JAVA_TOOL_OPTIONS": "-Xss512m"}       # the reference scanners recurse once per byte of a frame


def B(x):
    return list(x if isinstance(x, (bytes, bytearray)) else x.encode("utf-8"))


# ------------------------------------------------------------------------------------------------ framing scripts
def gen_to_scripts(behs):
    """TLC behaviours {f, items(model bytes), cuts, wf} -> driver scripts.  The model's short envelope prefix is replaced by
    a real JSON-RPC envelope (same bracket/quote structure) and the cut positions are shifted accordingly."""
    groups = {}
    for b in behs:
        key = json.dumps([b["f"], b["items"]])
        groups.setdefault(key, (b, []))[1].append(b["cuts"])
    scripts = []
    delta = len(REAL_PRE) - len(MC_PRE)
    for key, (b, cutlists) in groups.items():
        f = b["f"]
        items, ext = [], []          # ext: (model_start, model_hdr_len, model_text_len, has_pre, real_start)
        mpos = rpos = 0
        for it in b["items"]:
            t = bytes(it["t"])
            has_pre = it["k"] == "t" and t.startswith(MC_PRE)
            rt = REAL_PRE + t[len(MC_PRE):] if has_pre else t
            if it["k"] == "g":
                items.append({"g": list(rt)}); hl = 0
            elif it["k"] == "h":
                items.append({"h": it["h"], "t": list(rt)}); hl = len(it["h"])
            else:
                items.append({"t": list(rt)}); hl = 6 if f == "header" else 0
            ext.append((mpos, hl, len(t), has_pre, rpos))
            mpos += hl + len(t); rpos += hl + len(rt)

        def mapcut(c):
            for (ms, hl, tl, has_pre, rs) in ext:
                if c <= ms + hl + tl:
                    o = c - ms
                    if o > hl and has_pre and (o - hl) >= len(MC_PRE) - 2:
                        o += delta
                    return rs + o
            return rpos
        runs = [[]]
        for cl in cutlists:
            cuts = sorted(set(mapcut(c) for c in cl[:-1])) if f != "packet" else []
            cuts = [c for c in cuts if 0 < c < rpos]
            if cuts and cuts not in runs:
                runs.append(cuts)
        if f != "packet" and rpos <= 120:
            runs.append(list(range(1, rpos)))                        # every byte on its own
        scripts.append({"f": f, "items": items, "runs": runs})
    return scripts


def rnd_value(r, depth=0):
    """A random JSON value: nested objects/arrays, strings with quotes, backslashes, braces, brackets, non-ASCII."""
    k = r.random()
    if depth >= 4 or k < 0.35:
        c = r.randrange(9)
        if c == 0: return r.choice([0, 1, -1, 2147483647, -2147483648, 3.5, -0.25, 1e10, 12345678901234])
        if c == 1: return r.choice([True, False, None])
        return rnd_string(r)
    if k < 0.7:
        return [rnd_value(r, depth + 1) for _ in range(r.randrange(0, 4))]
    return {rnd_string(r): rnd_value(r, depth + 1) for _ in range(r.randrange(0, 4))}


PIECES = ['"', '\\', '{', '}', '[', ']', '\\"', '\\\\', '"}', '{"', ']"', '\\\\"', ',', ':', ' ', 'a', 'é', '中', '😀', 'ÿ', '\n', '\t',
          '\\u0041', '/', '\u007f', 'jsonrpc', '"]}', '\\\\\\"', '\x01', '\r']


def rnd_string(r):
    return "".join(r.choice(PIECES) for _ in range(r.randrange(0, 6)))


def dumps_variant(r, v):
    m = r.randrange(4)
    if m == 0: return json.dumps(v, ensure_ascii=False, separators=(",", ":"))
    if m == 1: return json.dumps(v, ensure_ascii=True)
    if m == 2: return json.dumps(v, ensure_ascii=False, indent=r.choice([1, 2]))
    return json.dumps(v, ensure_ascii=False, separators=(" , ", " : "))


def rnd_message_item(r):
    """An item that is a well-formed JSON-RPC text: written by the real encoder, or a JSON text in some layout."""
    kind = r.randrange(8)
    rid = r.choice([1, 2, 7, 0, -5, 2147483647, r.randrange(1, 1000)])
    if kind == 0:
        return {"enc": "req", "id": rid, "m": B(rnd_string(r) or "m"), **({"p": B(json.dumps(rnd_value(r), ensure_ascii=False))} if r.random() < 0.85 else {})}
    if kind == 1:
        return {"enc": "res", "id": rid or 3, "p": B(json.dumps(rnd_value(r), ensure_ascii=False))}
    if kind == 2:
        return {"enc": "err", "id": rid, "code": r.choice([-32601, -1, 5, -32000])}
    if kind == 3:
        msg = {"jsonrpc": "2.0", "method": rnd_string(r) or "x", "params": rnd_value(r)}
        if r.random() < 0.7: msg["id"] = rid
    elif kind == 4:
        msg = {"jsonrpc": "2.0", "id": rid, "result": rnd_value(r)}
    elif kind == 5:
        msg = [{"jsonrpc": "2.0", "method": "b%d" % i, "params": rnd_value(r, 2)} for i in range(r.randrange(1, 4))]
    elif kind == 6:
        msg = {"jsonrpc": "2.0", "error": {"code": r.choice([-32700, -32600, -1, 9]), "message": rnd_string(r)}}
        if r.random() < 0.6: msg["id"] = rid
    else:
        msg = {"jsonrpc": "2.0", "id": rid, "result": rnd_value(r), "error": None}          # success that also carries "error":null
    return {"t": B(dumps_variant(r, msg))}


def interesting_cuts(r, stream_len, hint_positions, n):
    pts = set()
    for _ in range(n):
        if hint_positions and r.random() < 0.7:
            p = r.choice(hint_positions) + r.choice([0, 1])
        else:
            p = r.randrange(1, max(2, stream_len))
        if 0 < p < stream_len: pts.add(p)
    return sorted(pts)


def approx_stream(f, items):
    """python-side estimate of the stream (exact for 't'/'g'/'h' items; encoder items are estimated) - only used to choose cuts"""
    s = bytearray()
    for it in items:
        if "enc" in it:
            s += b"?" * (60 + len(it.get("p") or []) + len(it.get("m") or []))
        else:
            if f == "header" and "g" not in it: s += bytes(it.get("h", [0] * 6))
            s += bytes(it.get("t", it.get("g", [])))
    return bytes(s)


DEPTHS = [1, 2, 31, 32, 33, 63, 64, 65, 66, 127, 128, 129, 200, 500]


def nested_text(kind, depth, leaf):
    """JSON text of a value nested `depth` levels deep: arrays, objects, or mixed (object, array, array, object, ...)."""
    opens, closes = [], []
    for d in range(depth):
        obj = kind == "obj" or (kind == "mix" and d % 3 == 0) or (kind == "mix2" and d % 2 == 1)
        if obj:
            opens.append('{"k%d":' % (d % 7) if d % 5 else '{"}":[],"k":'); closes.append("}")
        else:
            opens.append("[1," if d % 4 == 0 else "["); closes.append("]")
    return "".join(opens) + leaf + "".join(reversed(closes))


def deep_nesting_scripts(r, quick):
    """Valid messages whose params / result are nested 1 .. 500 levels deep, written by the real encoder and as plain texts, in all
    three framings, each followed by an ordinary message that must still be decoded."""
    scripts = []
    n = 0
    for depth in DEPTHS:
        for kind in ("arr", "obj", "mix", "mix2"):
            for role in ("params", "result"):
                n += 1
                f = FRAMINGS[n % 3] if quick else None
                for fr in ([f] if quick else FRAMINGS):
                    v = nested_text(kind, depth, r.choice(['"]}"', "1", "{}", "[]", '"\\\\\\""']))
                    if n % 2:
                        first = {"enc": "req", "id": 1 + n % 5, "m": B("deep"), "p": B(v)} if role == "params" else {"enc": "res", "id": 1 + n % 5, "p": B(v)}
                    else:
                        first = {"t": B('{"jsonrpc":"2.0","id":%d,%s}' % (1 + n % 5, '"method":"deep","params":' + v if role == "params" else '"result":' + v))}
                    items = [first] + ([{"g": B("\n")}] if fr == "raw" and n % 3 == 0 else []) + [{"enc": "req", "id": 9, "m": B("after"), "p": B("[1]")}]
                    size = len(v) + 60
                    runs = [[], [size // 2], [max(1, size - 8), size + 20]]
                    scripts.append({"f": fr, "items": items, "runs": runs})
    return scripts


def size_sweep_scripts(quick):
    """Encoder -> decoder round trip with the length of the encoded JSON text taking every value from the shortest possible message
    up to 600 bytes (plus around 1024 and 4096), messages back to back, 16 per stream.  Quick: every length for the header framing,
    every 5th / 9th plus 240..270 for packet / raw (the raw reference scan costs TLC one recursion per byte)."""
    base_res = len(json.dumps({"id": 1, "jsonrpc": "2.0", "result": ""}, separators=(",", ":"), sort_keys=True))
    base_req = len(json.dumps({"id": 1, "jsonrpc": "2.0", "method": "m", "params": ""}, separators=(",", ":"), sort_keys=True))
    scripts = []
    for f in FRAMINGS:
        lens = list(range(base_res, 601)) + [1023, 1024, 1025, 4095, 4096, 4097]
        if quick and f != "header":
            step = 9 if f == "raw" else 5
            lens = [L for L in lens if L % step == 0 or 240 <= L <= 270 or L > 1000]
        items = []
        for n, L in enumerate(lens):
            if L >= base_req and n % 2:
                items.append({"enc": "req", "id": 1, "m": B("m"), "p": B('"' + "x" * (L - base_req) + '"')})
            else:
                items.append({"enc": "res", "id": 1, "p": B('"' + "y" * (L - base_res) + '"')})
        for a in range(0, len(items), 16):
            scripts.append({"f": f, "items": items[a:a + 16], "runs": [[], [100, 257, 1000, 3000]]})
    return scripts


def seeded_framing_scripts(r, n_valid, n_hostile):
    scripts = []
    for i in range(n_valid):
        f = FRAMINGS[i % 3]
        items = []
        for j in range(r.randrange(1, 4)):
            if f == "raw" and r.random() < 0.4:
                items.append({"g": B(r.choice(["\n", " ", "\r\n", " \t\n "]))})
            items.append(rnd_message_item(r))
        if f == "raw" and r.random() < 0.2:
            items.append({"g": B("\n")})
        s = approx_stream(f, items)
        hints = [k for k, c in enumerate(s) if c in b'"\\{}[]']
        runs = [[]]
        for _ in range(3):
            runs.append(interesting_cuts(r, len(s), hints, r.randrange(1, 6)))
        if len(s) <= 150 and all("enc" not in it for it in items):
            runs.append(list(range(1, len(s))))
        scripts.append({"f": f, "items": items, "runs": [x for k, x in enumerate(runs) if k == 0 or x]})
    magic = [0x3e, 0x5a]
    for i in range(n_hostile):
        f = FRAMINGS[i % 3]
        base = bytes(rnd_message_item_text(r))
        m = r.randrange(13)
        if m == 0: t = bytes(r.randrange(256) for _ in range(r.randrange(1, 40)))
        elif m == 1: t = base[:r.randrange(0, len(base))]                                    # truncated
        elif m == 2: k = r.randrange(len(base)); t = base[:k] + bytes([r.randrange(256)]) + base[k + 1:]   # one byte replaced
        elif m == 3: k = r.randrange(len(base)); t = base[:k] + base[k + 1:]                 # one byte deleted
        elif m == 4: k = r.randrange(len(base)); t = base[:k] + r.choice([b'"', b'\\', b'{', b'}', b'[', b']', b'\xff', b'\x00']) + base[k:]
        elif m == 5: t = r.choice([b"]", b"}", b"{]", b"[}", b'"', b'"\\', b'{"a":"\\', b"[[[[[[[[", b"{}}", b'"\\"', b"\\\"{", b' ', b'1', b'nul', b'{"a":}'])
        elif m == 6: t = b"[" * r.randrange(1, 400) + b"]" * r.randrange(0, 400)
        elif m == 7: t = b'{"jsonrpc":"2.0","id":' + r.choice([b'"x"', b'1e400', b'4294967297', b'-1.5', b'{}', b'99999999999999999999']) + b',"result":1}'
        elif m == 8: t = b'{"jsonrpc":"2.0","id":1,"error":' + r.choice([b'1', b'[]', b'{"code":"x"}', b'null', b'{"code":1e99}']) + b'}'
        elif m == 9: t = b'{"a":"\xc3(","b":"\xed\xa0\x80"}'                                       # invalid UTF-8
        elif m == 10: t = (b'{"jsonrpc":"2.0","error":{"code":' + r.choice([b'-32700,"message":"Parse error"', b'-32600', b'7']) + b'},"id":' + r.choice(ODD_IDS) + b'}')
        elif m == 11: t = b'{"jsonrpc":"2.0","id":' + r.choice(ODD_IDS) + b',"result":' + r.choice([b'null', b'[1]', b'{"a":"}"}']) + b'}'
        else: t = b'{"jsonrpc":"2.0","method":"m","id":' + r.choice(ODD_IDS) + b',"params":[1]}'
        items = []
        if r.random() < 0.5: items.append(rnd_message_item(r))                                # a good message first
        if f == "header" and r.random() < 0.6:
            L = r.choice([0, len(t), max(0, len(t) - 1), len(t) + 1, 65536, 2 ** 31, 2 ** 32 - 1, 2 ** 32 - 6, 2 ** 32 - 7, 2 ** 32 - 5, r.randrange(2 ** 32)])
            mg = magic if r.random() < 0.8 else [r.randrange(256), r.randrange(256)]
            items.append({"h": mg + [(L >> 24) & 255, (L >> 16) & 255, (L >> 8) & 255, L & 255], "t": list(t)})
        else:
            items.append({"t": list(t)})
        if r.random() < 0.5: items.append(rnd_message_item(r))
        s = approx_stream(f, items)
        hints = [k for k, c in enumerate(s) if c in b'"\\{}[]']
        runs = [[]] + [x for x in (interesting_cuts(r, len(s), hints, r.randrange(1, 5)) for _ in range(3)) if x]
        if len(s) <= 100 and all("enc" not in it for it in items):
            runs.append(list(range(1, len(s))))
        scripts.append({"f": f, "items": items, "runs": runs})
    return scripts


# ids that are present but not an int-range integer (error / result responses and requests of the hostile corpus)
ODD_IDS = [b'null', b'"abc"', b'"1"', b'[1]', b'[]', b'{}', b'{"x":1}', b'1.5', b'-0.5', b'1e3', b'4294967297', b'2147483648', b'-2147483649',
           b'99999999999999999999', b'true', b'false']


def rnd_message_item_text(r):
    msg = {"jsonrpc": "2.0", "method": rnd_string(r) or "x", "id": r.randrange(1, 9), "params": rnd_value(r, 1)}
    return B(json.dumps(msg, ensure_ascii=False, separators=(",", ":")))


def run_frame(ctx, exe, scripts, tag, what, replayed):
    sp = ctx.tmp(tag + ".jsonl")
    with open(sp, "w") as fh:
        for s in scripts:
            fh.write(json.dumps(s) + "\n")
    tr = ctx.tmp(tag + ".ndjson")
    before = ctx.traces_ok
    ok, n = vlib.record_and_validate(ctx, exe, ["frame", sp, tr], tr, SPEC, "Trace_Framing.tla", "Trace_Framing.cfg", what, tlc_env=TLC_ENV)
    if ok and replayed:
        ctx.traces_ok = before
        ctx.replays_ok += n
    return ok, tr


# ------------------------------------------------------------------------------------------------ rpc scripts
# "id" members (JSON text; "" = no id member) of messages that match no waiting request.  Several of them would alias a live id
# (1, 2, 3, ...) if the id were converted carelessly: fractions, values beyond 2^31 / 2^32, strings and arrays holding a live id.
STRANGERS = ["0", "-1", "99999", "4294967297", "4294967298", "4294967299", "8589934593", "-4294967295", "2147483649", "\"1\"", "\"abc\"",
             "1.5", "2.5", "3.9", "0.5", "null", "null", "true", "[1]", "[]", "{}", "{\"a\":1}", ""]
STRANGER_KINDS = ["res", "err", "err", "req"]          # result response, error response (twice as often), incoming request


def gen_to_rpc_scripts(behs, r):
    scripts = []
    for i, b in enumerate(behs):
        steps = []
        for op in b["steps"]:
            if op["o"] == "req":
                steps.append({"o": "req", "cb": op["cb"], "body": op["body"]} if op["cb"] else {"o": "req", "cb": False})
            elif op["o"] == "rsp":
                if op["k"] > 0:
                    kind = ["err", "res_errnull", "err_resnull", "res", "res"][(i + len(steps)) % 5]
                    steps.append({"o": "rsp", "k": op["k"]} if kind == "res" else {"o": "rsp", "k": op["k"], "kind": kind, "val": -7 - len(steps)})
                else: steps.append({"o": "rsp", "raw": op["raw"], "kind": ["err", "res", "err", "req"][(i + len(steps)) % 4]})
            elif op["o"] == "adv":
                steps.append({"o": "adv", "u": 1})
            elif op["o"] in ("insync", "inasync"):
                steps.append({"o": "inreq", "m": op["o"][2:], "id": op["k"]})          # the peer's request, with the peer's id
            elif op["o"] == "respond":
                steps.append({"o": "respond", "j": op["k"]})
            else:
                steps.append({"o": "cleanup"})
        # let the clock run out at the end so that every request must have completed
        if not any(s["o"] == "cleanup" for s in steps):
            steps += [{"o": "adv", "u": 1}] * (b["N"] * b["T"] + 1)
        scripts.append({"f": FRAMINGS[i % 3], "N": b["N"], "T": b["T"], "engine": "epoll" if i % 2 == 0 else "select", "base": i % 3, "steps": steps})
    return scripts


def rnd_body(r, depth=0):
    body = []
    for _ in range(r.choice([0, 0, 1, 1, 2, 3])):
        body.append(["req"] if r.random() < 0.4 else ["rsp", r.choice([0, 0, 1, 2, 3, 4])])
    return body


def seeded_rpc_scripts(r, n, nsteps):
    scripts = []
    for i in range(n):
        N = r.choice([1, 1, 2, 2, 3])
        T = r.choice([1, 2, 2, 4])
        steps, nreq, nin = [], 0, 0
        for _ in range(nsteps):
            x = r.random()
            if x < 0.25:
                steps.append({"o": "req", "cb": True, "body": rnd_body(r)}); nreq += 1
            elif x < 0.3:
                steps.append({"o": "req", "cb": False})
            elif x < 0.5 and nreq:
                k = max(1, nreq + 1 - r.choice([0, 1, 1, 1, 2, 2, 3, 5]))          # mostly a recent request, sometimes one not issued yet
                kind = r.choice(["res", "res", "res", "err", "err", "res_errnull", "err_resnull"])      # incl. responses carrying both members
                steps.append({"o": "rsp", "k": k} if kind == "res" else {"o": "rsp", "k": k, "kind": kind, "val": r.choice([-1, -7, 5, -32601])})
            elif x < 0.58:
                steps.append({"o": "rsp", "raw": r.choice(STRANGERS), "kind": r.choice(STRANGER_KINDS)})
            elif x < 0.68:
                # the other direction: the peer's requests use the same small id numbers as ours
                steps.append({"o": "inreq", "m": r.choice(["async", "async", "sync", "nosuch"]), "id": r.choice([1, 1, 2, 2, 3, 4, 5, nreq + 1, nreq + 2])})
                nin += 1
            elif x < 0.72 and nin:
                steps.append({"o": "respond", "j": r.randrange(1, nin + 1)})
            elif x < 0.985:
                steps.append({"o": "adv", "u": r.randrange(1, T + 1)})
            else:
                steps.append({"o": "cleanup"})
        steps += [{"o": "adv", "u": T}] * (N + 1)
        scripts.append({"f": r.choice(FRAMINGS), "N": N, "T": T, "engine": r.choice(["epoll", "select"]), "base": r.randrange(5), "steps": steps})
    return scripts


def run_rpc(ctx, exe, scripts, tag, what, replayed):
    sp = ctx.tmp(tag + ".jsonl")
    with open(sp, "w") as fh:
        for s in scripts:
            fh.write(json.dumps(s) + "\n")
    tr = ctx.tmp(tag + ".ndjson")
    before = ctx.traces_ok
    ok, n = vlib.record_and_validate(ctx, exe, ["rpc", sp, tr], tr, SPEC, "Trace_Rpc.tla", "Trace_Rpc.cfg", what, tlc_env=TLC_ENV)
    if ok and replayed:
        ctx.traces_ok = before
        ctx.replays_ok += n
    return ok, tr


FR_ACTIONS = ["Arrive", "CallMsg", "CallNeed", "CallErr"]
RPC_ACTIONS = ["Request", "Response", "BodyReq", "BodyRsp", "CbEnd", "Tick", "TmoFire", "TmoSkip", "TickEnd", "Advance", "Cleanup"]


def run(ctx):
    exe = vlib.build("c14_jsonrpc", SRC, ["c14_jsonrpc/driver.cpp"], flavour="asan", defines=DEFS)
    ctx.fault_observers = ["AddressSanitizer+UBSan on the harness build (every onRecvData call gets an exact-size heap copy of the buffer)",
                           "std::set_terminate (an exception leaving onRecvData / a callback) and SIGSEGV/SIGABRT/SIGBUS/SIGFPE handlers -> Fault event"]
    if ctx.replay_path:
        lines = [json.loads(x) for x in open(ctx.replay_path) if x.strip().startswith("{")]
        begins = [e for e in lines if e.get("e") == "Begin" and "src" in e]
        if begins and "stream" in begins[0]:
            run_frame(ctx, exe, [begins[0]["src"]], "replay", "replay of a recorded framing execution", True)
            return
        if begins:
            run_rpc(ctx, exe, [begins[0]["src"]], "replay", "replay of a recorded rpc execution", True)
            return
        ctx.log("replay file holds no recorded execution (a model-level counterexample): running the whole check")
    q = ctx.quick()
    r = random.Random(ctx.seed)
    only = os.environ.get("C14_ONLY", "")               # development aid: run a subset of the stages (mc,genframe,genrpc,rndframe,rndrpc)
    want = lambda stage: not only or stage in only.split(",")

    # 1. the designs -----------------------------------------------------------------------------------------------
    if want("mc"):
        model_checks(ctx, q)
    # 2. spec -> code ----------------------------------------------------------------------------------------------
    if want("genframe"):
        replay_framing(ctx, exe, q)
    if want("genrpc"):
        replay_rpc(ctx, exe, q, r)
    # 3. code -> spec ----------------------------------------------------------------------------------------------
    if want("rndframe"):
        nv, nh = (500, 700) if q else (6000, 8000)
        fscripts = seeded_framing_scripts(random.Random(ctx.seed * 7919 + 1), nv, nh)
        dscripts = deep_nesting_scripts(random.Random(ctx.seed * 31 + 5), q)
        sscripts = size_sweep_scripts(q)
        run_frame(ctx, exe, sscripts, "sizeframe", "size sweep: encoded text lengths up to 600, 1024, 4096 (%d streams)" % len(sscripts), False)
        run_frame(ctx, exe, dscripts, "deepframe", "deeply nested valid messages (depth 1..500; %d streams)" % len(dscripts), False)
        ok, tr = run_frame(ctx, exe, fscripts, "rndframe", "seeded corpora: %d valid streams, %d hostile streams, segmented" % (nv, nh), False)
        ctx.sample({"kind": "recorded framing trace (first events)", "events": [json.loads(x)["e"] for x in vlib.read_lines(tr, 1, 12)]})
    if want("rndrpc"):
        nr, ns = (400, 30) if q else (5000, 40)
        ok, tr = run_rpc(ctx, exe, seeded_rpc_scripts(random.Random(ctx.seed * 104729 + 2), nr, ns), "rndrpc",
                         "seeded request/response/clock histories (%d x %d steps)" % (nr, ns), False)
        ctx.sample({"kind": "recorded rpc trace (first events)", "events": [json.loads(x) for x in vlib.read_lines(tr, 2, 14)]})
    evidence_notes(ctx)


def model_checks(ctx, q):
    # small configurations with per-action coverage (vacuity guard), then the bounded scopes without coverage
    ctx.tlc_mc(SPEC, "MC_Framing.tla", "MC_fr_cov.cfg", required_actions=FR_ACTIONS)
    ctx.tlc_mc(SPEC, "MC_Framing.tla", "MC_fr_quick.cfg" if q else "MC_fr_thorough.cfg", coverage=False, timeout=1500)
    ctx.tlc_mc(SPEC, "MC_Framing.tla", "MC_fr_asfound.cfg", expect="TotalByReturnValue", coverage=False)   # 32-bit wrap of length+6
    ctx.tlc_mc(SPEC, "MC_Framing.tla", "MC_fr_noesc.cfg", expect="RoundTrip", coverage=False)             # escapes ignored
    ctx.tlc_mc(SPEC, "MC_Rpc.tla", "MC_rpc_cov.cfg", required_actions=RPC_ACTIONS)
    ctx.tlc_mc(SPEC, "MC_Rpc.tla", "MC_rpc_quick.cfg" if q else "MC_rpc_thorough.cfg", coverage=False, timeout=1500)
    ctx.tlc_mc(SPEC, "MC_Rpc.tla", "MC_rpc_flat.cfg", coverage=False, timeout=1500)
    ctx.tlc_mc(SPEC, "MC_Rpc.tla", "MC_rpc_n3.cfg", coverage=False, timeout=1500)
    ctx.tlc_mc(SPEC, "MC_Rpc.tla", "MC_rpc_asfound.cfg", expect="CallbackAtMostOnce", coverage=False)      # invoke, then erase
    ctx.tlc_mc(SPEC, "MC_Rpc.tla", "MC_rpc_keep.cfg", expect="CallbackAtMostOnce", coverage=False)         # response keeps the callback
    ctx.tlc_mc(SPEC, "MC_Rpc.tla", "MC_rpc_asyncwrong.cfg", expect="TimeoutOtherwise", coverage=False)    # peer's id in our ring
    ctx.exhaustive = True
    for fn in glob.glob(os.path.join(vlib.SPEC, SPEC, "*_TTrace_*")):      # TLC's trace-explorer files of the expected violations
        os.remove(fn)



def replay_framing(ctx, exe, q):
    behs = ctx.tlc_gen(SPEC, "Gen_Framing.tla", "Gen_fr_quick.cfg" if q else "Gen_fr_thorough.cfg", timeout=1500)
    behs.sort(key=lambda b: json.dumps(b, sort_keys=True))         # TLC's workers print in no fixed order
    scripts = gen_to_scripts(behs)
    ctx.notes.append("framing: %d model behaviours (scenario x segmentation) -> %d scenarios, %d runs on the real protos" %
                     (len(behs), len(scripts), sum(len(s["runs"]) for s in scripts)))
    ctx.sample({"kind": "model behaviour replayed on the real proto (framing)", "script": scripts[len(scripts) // 2]})
    run_frame(ctx, exe, scripts, "genframe", "replay of %d model scenarios (framing)" % len(scripts), True)



def replay_rpc(ctx, exe, q, r):
    rbehs = ctx.tlc_gen(SPEC, "Gen_Rpc.tla", "Gen_rpc_quick.cfg" if q else "Gen_rpc_thorough.cfg", timeout=1500)
    deep = ctx.tlc_gen(SPEC, "Gen_Rpc.tla", "Gen_rpc_n2.cfg" if q else "Gen_rpc_n2_thorough.cfg", timeout=1500)
    deep += ctx.tlc_gen(SPEC, "Gen_Rpc.tla", "Gen_rpc_bidir.cfg" if q else "Gen_rpc_bidir_thorough.cfg", timeout=1500)   # both directions
    rbehs.sort(key=lambda b: json.dumps(b, sort_keys=True))       # TLC's workers print in no fixed order
    deep.sort(key=lambda b: json.dumps(b, sort_keys=True))
    rscripts = gen_to_rpc_scripts(rbehs + deep, r)
    ctx.sample({"kind": "model behaviour replayed on the real Rpc", "script": rscripts[len(rbehs) // 3]})
    run_rpc(ctx, exe, rscripts, "genrpc", "replay of %d model behaviours (rpc)" % len(rscripts), True)



def evidence_notes(ctx):
    ctx.assumptions = [
        "delivered messages are compared through the text  kind|id|method-or-code|dump()  of what reaches the proto's callbacks",
        "well-formedness of corpus items (valid JSON, JSON-RPC shape) is the harness's own nlohmann parse; for input outside it only "
        "the statement's clauses for malformed input are demanded (return value <= given, same outcome under every segmentation, no fault)",
        "segmented runs are compared with the unsegmented run of the real code on the same bytes",
        "the virtual clock advances by at most one timer interval per step, so ticks are never late by more than one interval",
        "FindEndPos() = -1 (closing bracket without an opening one) is answered by RawStreamProto with 0 = 'need more': accepted "
        "(reported through the return value; the stream stalls)",
    ]
    ctx.uncovered = [
        "requests still pending at Rpc::cleanup() get no callback at all (the statement does not mention cleanup; only 'nothing fires "
        "afterwards' is checked)",
        "JSON texts with exponents / true / false / null are covered by the seeded corpora on the real code only, not by the bounded model alphabet",
        "streams longer than 64 KiB and length fields whose frame would really arrive (>= 64 KiB of text) are not exercised",
    ]
